import PprofVerif.Model.SettingsTypes
/-!
# Model of saved view configurations (property C19) — option ↔ URL ↔ JSON, read-modify-write

Mirrors `internal/driver/config.go` (`get`, `set`, `applyURL`, `makeURL`) and
`internal/driver/settings.go` (`readSettings`, `writeSettings`, `editSettings`, `setConfig`,
`removeConfig`) over an ARBITRARY field table `fs : List FieldSpec`; the table of the current tree
is `PV.Gen.ConfigFields.fields` (regenerated on every check).

External things are parameters:
* `FloatOps.parse` — `strconv.ParseFloat` followed by `fmt.Sprint` (canonical text of the float);
* `JsonCodec` — `encoding/json` for the settings document (`dec (enc x) = some x`);
* `net/url` query encoding — the model works on decoded queries (`Query`).
The file system is modelled in `Model/SettingsFS.lean`, the concurrent read-modify-write in
`Model/SettingsRMW.lean`.  Core Lean only.
-/
namespace PV.Settings

/-! ## decimal integers (`fmt.Sprint(int)`, `strconv.Atoi`) -/

def digitByte (d : Nat) : UInt8 := UInt8.ofNat (48 + d)

/-- least-significant-first decimal digits; `fuel > n` suffices. -/
def natDigitsRev : Nat → Nat → List UInt8
  | 0, _ => []
  | fuel + 1, n => digitByte (n % 10) :: (if n / 10 = 0 then [] else natDigitsRev fuel (n / 10))

def showNat (n : Nat) : Str := (natDigitsRev (n + 1) n).reverse

/-- `fmt.Sprint` of a Go `int`. -/
def showInt (n : Int) : Str :=
  if n < 0 then 45 :: showNat n.natAbs else showNat n.natAbs

def isDigit (c : UInt8) : Bool := 48 ≤ c.toNat && c.toNat ≤ 57

/-- most-significant-first digits → number; `none` on a non-digit. -/
def parseDigits : List UInt8 → Nat → Option Nat
  | [], acc => some acc
  | c :: cs, acc => if isDigit c then parseDigits cs (acc * 10 + (c.toNat - 48)) else none

def inI64 (n : Int) : Bool := -9223372036854775808 ≤ n && n ≤ 9223372036854775807

/-- digits (after the optional sign) → value; at least one digit, result within int64. -/
def atoiDigits (neg : Bool) (ds : Str) : Option Int :=
  match ds with
  | [] => none
  | _ :: _ => match parseDigits ds 0 with
    | none => none
    | some m =>
      let v : Int := if neg then -(m : Int) else (m : Int)
      if inI64 v then some v else none

/-- `strconv.Atoi` on a 64-bit platform: optional sign, at least one decimal digit, value within
int64; `none` = error (syntax or range). -/
def atoi (s : Str) : Option Int :=
  match s with
  | [] => none
  | c :: r =>
    if c = 45 then atoiDigits true r
    else if c = 43 then atoiDigits false r
    else atoiDigits false (c :: r)

/-! ## bools (`commands.go` `stringToBool`) -/

def lowerByte (c : UInt8) : UInt8 := if 65 ≤ c.toNat && c.toNat ≤ 90 then UInt8.ofNat (c.toNat + 32) else c

/-- `stringToBool`: `strings.ToLower` then a fixed word list ("" counts as true). Only ASCII
letters are folded: no non-ASCII rune lower-cases to a letter of these words. -/
def stringToBool (s : Str) : Option Bool :=
  let l := s.map lowerByte
  if l ∈ [b!"true", b!"t", b!"yes", b!"y", b!"1", b!""] then some true
  else if l ∈ [b!"false", b!"f", b!"no", b!"n", b!"0"] then some false
  else none

/-! ## floats: external -/

/-- `parse s` = canonical text (`fmt.Sprint`) of `strconv.ParseFloat(s, 64)`, `none` on error. -/
structure FloatOps where
  parse : Str → Option Str

/-! ## field values -/

abbrev Config := List Val

/-- `config.get`: `fmt.Sprint` of the field. -/
def getStr : Val → Str
  | .b true => b!"true"
  | .b false => b!"false"
  | .i n => showInt n
  | .f t => t
  | .s s => s

def hasKind : Kind → Val → Bool
  | .bool, .b _ => true
  | .int, .i _ => true
  | .float, .f _ => true
  | .string, .s _ => true
  | .choice, .s _ => true
  | _, _ => false

def zeroOf : Kind → Val
  | .bool => .b false
  | .int => .i 0
  | .float => .f b!"0"
  | .string => .s []
  | .choice => .s []

/-- `config.set`: parse `value` for field `f`; `none` = the error return. -/
def setVal (fo : FloatOps) (f : FieldSpec) (value : Str) : Option Val :=
  match f.kind with
  | .string => some (.s value)
  | .choice => if value ∈ f.choices then some (.s value) else none
  | .int => (atoi value).map .i
  | .float => (fo.parse value).map .f
  | .bool => (stringToBool value).map .b

def defaults (fs : List FieldSpec) : Config := fs.map (·.default)

/-! ## URL queries (`url.Values` restricted to `Get`/`Set`/`Del`) -/

abbrev Query := List (Str × Str)

def qget : Query → Str → Str
  | [], _ => []
  | (k', v) :: r, k => if k' = k then v else qget r k

def qdel (q : Query) (k : Str) : Query := q.filter (fun p => decide (p.1 ≠ k))
def qset (q : Query) (k v : Str) : Query := (k, v) :: qdel q k

/-- field is placed in URLs by `makeURL`. -/
def inURL (f : FieldSpec) : Bool := decide (f.urlparam ≠ []) && f.saved

/-- the URL form of a field value: "" for the default, "t"/"f" for bools. -/
def urlVal (f : FieldSpec) (v : Val) : Str :=
  let s := getStr v
  if s = getStr f.default then [] else if f.kind = .bool then s.take 1 else s

/-- `config.makeURL` on the query of the initial URL; second component: "a parameter changed". -/
def makeURL : List FieldSpec → Config → Query → Query × Bool
  | f :: fs, v :: vs, q =>
    if inURL f then
      let x := urlVal f v
      if qget q f.urlparam = x then makeURL fs vs q
      else ((makeURL fs vs (if x = [] then qdel q f.urlparam else qset q f.urlparam x)).1, true)
    else makeURL fs vs q
  | _, _, q => (q, false)

/-- `config.applyURL`; `none` = error (config.go leaves `*cfg` partially updated and the callers
discard it). -/
def applyURL (fo : FloatOps) : List FieldSpec → Config → Query → Option Config
  | f :: fs, v :: vs, q =>
    let value := if f.urlparam ≠ [] then qget q f.urlparam else []
    if value = [] then (applyURL fo fs vs q).map (v :: ·)
    else match setVal fo f value with
      | none => none
      | some v' => (applyURL fo fs vs q).map (v' :: ·)
  | _, _, _ => some []

/-- what a URL round trip promises for one field: "" counts as unset. -/
def normVal (f : FieldSpec) (v : Val) : Val := if v = .s [] then f.default else v

/-- result of `applyURL defaults (makeURL cfg)`: URL-carried fields keep their value ("" ≡ default),
all other fields take the default. -/
def normURL : List FieldSpec → Config → Config
  | f :: fs, v :: vs => (if inURL f then normVal f v else f.default) :: normURL fs vs
  | _, _ => []

/-- the full promise — EVERY saved option survives ("" ≡ default), transient ones take the default;
equals `normURL` exactly when every saved field has a URL parameter (`allSavedInURL`). -/
def normSaved : List FieldSpec → Config → Config
  | f :: fs, v :: vs => (if f.saved then normVal f v else f.default) :: normSaved fs vs
  | _, _ => []

/-- table fact: every saved field is carried by URLs. -/
def allSavedInURL (fs : List FieldSpec) : Bool := fs.all (fun f => !f.saved || decide (f.urlparam ≠ []))

/-! ## JSON objects -/

abbrev Obj := List (Str × Val)

def isZero : Val → Bool
  | .b v => !v
  | .i n => n == 0
  | .f t => t == b!"0"
  | .s s => s == []

def olookup : Obj → Str → Option Val
  | [], _ => none
  | (k', v) :: r, k => if k' = k then some v else olookup r k

/-- `json.Marshal` of one `config`: saved fields in struct order, `omitempty` zero values left out. -/
def toObj : List FieldSpec → Config → Obj
  | f :: fs, v :: vs =>
    if f.saved && !(f.omitempty && isZero v) then (f.name, v) :: toObj fs vs else toObj fs vs
  | _, _ => []

/-- `json.Unmarshal` into a zero `config` followed by `resetTransient`: saved fields from the
object (absent ⇒ zero value, wrong JSON type ⇒ error), all other fields from the current config. -/
def fromObj : List FieldSpec → Config → Obj → Option Config
  | f :: fs, c :: cs, o =>
    if f.saved then
      match olookup o f.name with
      | none => (fromObj fs cs o).map (zeroOf f.kind :: ·)
      | some v => if hasKind f.kind v then (fromObj fs cs o).map (v :: ·) else none
    else (fromObj fs cs o).map (c :: ·)
  | _, _, _ => some []

/-- what a JSON round trip promises: saved fields intact, the others as currently configured. -/
def restore : List FieldSpec → Config → Config → Config
  | f :: fs, c :: cs, v :: vs => (if f.saved then v else c) :: restore fs cs vs
  | _, _, _ => []

/-- `json.Marshal` rejects NaN and ±Inf (`UnsupportedValueError`); only saved fields are marshalled. -/
def nonFinite (t : Str) : Bool := t == b!"NaN" || t == b!"+Inf" || t == b!"-Inf"

def encodable : List FieldSpec → Config → Bool
  | f :: fs, v :: vs =>
    (match v with | .f t => !(f.saved && nonFinite t) | _ => true) && encodable fs vs
  | _, _ => true

/-! ## the settings document -/

abbrev Settings := List (Str × Config)
abbrev FileObj := List (Str × Obj)

def encS (fs : List FieldSpec) (s : Settings) : FileObj := s.map (fun p => (p.1, toObj fs p.2))

def decS (fs : List FieldSpec) (cur : Config) : FileObj → Option Settings
  | [] => some []
  | (n, o) :: r =>
    match fromObj fs cur o with
    | none => none
    | some c => (decS fs cur r).map ((n, c) :: ·)

def encodableS (fs : List FieldSpec) (s : Settings) : Bool := s.all (fun p => encodable fs p.2)

/-- `setConfig`'s edit function: replace the first entry named `name`, else append. -/
def setEntry (name : Str) (cfg : Config) : Settings → Settings
  | [] => [(name, cfg)]
  | (n, c) :: r => if n = name then (n, cfg) :: r else (n, c) :: setEntry name cfg r

/-- `removeConfig`'s edit function: drop the first entry named `name`; `none` = "not found". -/
def removeEntry (name : Str) : Settings → Option Settings
  | [] => none
  | (n, c) :: r => if n = name then some r else (removeEntry name r).map ((n, c) :: ·)

/-- A request to the web UI's settings handlers. -/
inductive Req where
  | save (q : Query)       -- /saveconfig?<q>   (name = q.config)
  | delete (name : Str)    -- /deleteconfig?config=<name>
  deriving DecidableEq, Repr

/-- the edit a request performs on loaded settings; `none` = request fails before any write. -/
def Req.edit (fo : FloatOps) (fs : List FieldSpec) (cur : Config) : Req → Settings → Option Settings
  | .save q, s =>
    let name := qget q b!"config"
    if name = [] then none
    else match applyURL fo fs cur q with
      | none => none
      | some cfg => some (setEntry name cfg s)
  | .delete name, s => removeEntry name s

/-- `editSettings` at the level of decoded documents: `file = none` ⇒ no settings file yet.
Result: the document after the request and whether the handler reported success. A failing
request leaves the document as it is. -/
def handleObj (fo : FloatOps) (fs : List FieldSpec) (cur : Config) (file : Option FileObj) (r : Req) :
    Option FileObj × Bool :=
  match (match file with | none => some [] | some d => decS fs cur d) with
  | none => (file, false)
  | some s =>
    match r.edit fo fs cur s with
    | none => (file, false)
    | some s' => if encodableS fs s' then (some (encS fs s'), true) else (file, false)

/-- `encoding/json` for the whole document. -/
structure JsonCodec where
  enc : FileObj → Str
  dec : Str → Option FileObj

def JsonCodec.RoundTrips (j : JsonCodec) : Prop := ∀ d, j.dec (j.enc d) = some d

/-- `readSettings` on file contents (`none` = file does not exist). -/
def readSettings (j : JsonCodec) (fs : List FieldSpec) (cur : Config) : Option Str → Option Settings
  | none => some []
  | some b => (j.dec b).bind (decS fs cur)

/-- bytes `writeSettings` hands to the file system. -/
def settingsBytes (j : JsonCodec) (fs : List FieldSpec) (s : Settings) : Str := j.enc (encS fs s)

/-- `editSettings` on file contents, with the write itself atomic (that it is, is the business of
`SettingsFS`). -/
def handleBytes (j : JsonCodec) (fo : FloatOps) (fs : List FieldSpec) (cur : Config)
    (file : Option Str) (r : Req) : Option Str × Bool :=
  match readSettings j fs cur file with
  | none => (file, false)
  | some s =>
    match r.edit fo fs cur s with
    | none => (file, false)
    | some s' => if encodableS fs s' then (some (settingsBytes j fs s'), true) else (file, false)

/-! ## table facts the theorems need (decided by the kernel on the regenerated table) -/

def allDistinct : List Str → Bool
  | [] => true
  | x :: r => !(r.contains x) && allDistinct r

def defaultTyped (f : FieldSpec) : Bool :=
  hasKind f.kind f.default &&
  (match f.default with
   | .i n => inI64 n
   | _ => true) &&
  (match f.kind with
   | .choice => !f.choices.isEmpty && !f.choices.contains []
   | _ => f.choices.isEmpty)

/-- everything `url_roundtrip` needs of a table: every URL parameter is used by one field only,
defaults have the field's type. -/
def urlTableOK (fs : List FieldSpec) : Bool :=
  allDistinct ((fs.filter (fun f => decide (f.urlparam ≠ []))).map (·.urlparam)) &&
  fs.all defaultTyped &&
  fs.all (fun f => decide (f.urlparam ≠ b!"config"))

/-- everything `json_roundtrip_saved_fields` needs: saved fields have pairwise different non-empty
JSON names. -/
def jsonTableOK (fs : List FieldSpec) : Bool :=
  allDistinct ((fs.filter (·.saved)).map (·.name)) &&
  (fs.filter (·.saved)).all (fun f => decide (f.name ≠ [] ∧ f.name ≠ b!"name"))

/-- the load path restores exactly the non-saved fields from the current configuration. -/
def transientOK (fs : List FieldSpec) (transient : List String) (fromZero resets : Bool) : Bool :=
  fromZero && resets &&
  (fs.filter (fun f => !f.saved)).all (fun f => transient.contains f.goName) &&
  transient.all (fun t => (fs.filter (fun f => !f.saved)).any (fun f => f.goName == t))

end PV.Settings
