import PprofVerif.Model.Graph
/-
The two consistency tests of graph.go `TrimTree` ("TrimTree only works on trees", "Get parent
assertion failed"), as checks over the graph model of `Model/Graph.lean`.  Core Lean only.
-/
namespace PV.Graph
open PV.GSpec
variable {κ : Type} [DecidableEq κ]

/-- sources of the in-edges of `n` (`cur.In`) -/
def inEdges (g : GState κ) (n : κ) : List κ := ((g.edges.map (·.1)).filter (fun e => decide (e.2 = n))).map (·.1)

/-- the two consistency tests of `TrimTree`, for the nodes in list order; `kept` = the kept set -/
def trimTreeChecks (kept : κ → Bool) (g : GState κ) : Outcome Unit :=
  (g.nodes.map (·.1)).foldl (fun acc cur =>
    match acc with
    | .ok _ =>
      if (inEdges g cur).length > 1 then .panic "TrimTree only works on trees"
      else if kept cur then .ok ()
      else if (inEdges g cur).length = 0 then .ok ()
      else if (inEdges g cur).length ≠ 1 then .panic "Get parent assertion failed. cur.In expected to be of length 1."
      else .ok ()
    | o => o) (.ok ())

end PV.Graph
