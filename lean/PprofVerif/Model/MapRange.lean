/-!
# Map-iteration sites (property C08) — record types

`tools/extract/mapranges.go` regenerates the list of `range`-over-map statements whose body feeds
something order-sensitive (`Gen/MapRanges.lean`); `Spec/MapRangesExpected.lean` holds the
hand-reviewed list with a verdict per site; `Props/C08.lean` compares them.  Core Lean only.
-/
namespace PV.MapRange

/-- what the loop body feeds -/
inductive SinkKind | append | write | concat | floatsum | pick | delete
  deriving DecidableEq, Repr

/-- One site.  Types only — no local names, no line numbers, no callee names. -/
structure Site where
  file : String
  fn : String
  kind : SinkKind
  sink : String
  sorted : Bool
  total : Bool
  returned : Bool
  deriving DecidableEq, Repr

/-- Reviewer's verdict on a site. -/
inductive Verdict
  /-- the extractor itself saw the slice reach a sort before any output call -/
  | sortedHere
  /-- sorted here with a caller-supplied comparator; reviewed to be a total order on the elements -/
  | customSort (why : String)
  /-- returned/handed on unsorted; every consumer sorts it before printing -/
  | sortedByConsumer (who : String)
  /-- the result does not depend on the order (reason) -/
  | orderIrrelevant (why : String)
  /-- order-dependent, but not part of any report output / serialization -/
  | notReportOutput (what : String)
  /-- order-dependent in principle and reaches report output: hunted by the run-time oracle only -/
  | hunted (what : String)
  deriving DecidableEq, Repr

structure Reviewed where
  site : Site
  verdict : Verdict
  deriving DecidableEq, Repr

/-- A verdict is consistent with what the extractor measured. -/
def Reviewed.consistent (r : Reviewed) : Bool :=
  match r.verdict with
  | .sortedHere => r.site.sorted && r.site.total
  | .customSort _ => r.site.sorted && !r.site.total
  | _ => !r.site.sorted

/-- A site that needs no review: the collected slice reaches a TOTAL sort before any output, so the
order in which the map was walked cannot show. -/
def Site.selfEvident (s : Site) : Bool := decide (s.kind = SinkKind.append) && s.sorted && s.total

end PV.MapRange
