import PprofVerif.Base.Basic
/-!
# Comparators as data (property C08) — the fixed interpreter

`tools/extract` translates every comparator of internal/graph/graph.go into a list of key
descriptors (`Gen/Comparators.lean`).  This file gives such a list its meaning (`lessOf`) and
contains the executable sort the driver uses.  Core Lean only.

A Go comparator of the recognised shape is a chain

    if g₁(a) != g₁(b) { return o₁(a) <₁ o₁(b) }
    …
    return oₙ(a) <ₙ oₙ(b)

where `gᵢ` (the *guard* quantity) and `oᵢ` (the *order* quantity) are a projection of the element,
possibly wrapped in `abs64`, and `<ᵢ` is `<` (ascending) or `>` (descending).  A key is *proper*
when guard and order test the same quantity.  `if a.Flat != b.Flat { return abs64(a.Flat) >
abs64(b.Flat) }` is not proper: for +5/−5 the guard fires and the order says "not less" both ways.
-/
namespace PV.Order

/-- Every key value is a list of integers compared lexicographically: an integer field is a
singleton, a Go string is its bytes (so `Key.lt` on strings is Go's bytewise `<`). -/
abbrev Key := List Int

def Key.lt : Key → Key → Bool
  | [], [] => false
  | [], _ :: _ => true
  | _ :: _, [] => false
  | a :: as, b :: bs => if a < b then true else if b < a then false else Key.lt as bs

def ikey (n : Int) : Key := [n]
def skey (s : Str) : Key := s.map (fun b => (b.toNat : Int))

def minI64 : Int := -9223372036854775808

/-- Go's `abs64` on int64: `if i < 0 { return -i }`; two's-complement negation leaves MinInt64 as
it is (so the result is negative there). -/
def abs64 (i : Int) : Int := if i < 0 then (if i = minI64 then i else -i) else i

inductive Guard | raw | abs | same deriving DecidableEq, Repr
inductive Dir | asc | desc deriving DecidableEq, Repr
inductive Xf | id | abs deriving DecidableEq, Repr

def Xf.app : Xf → Key → Key
  | .id, k => k
  | .abs, k => k.map abs64

/-- A key descriptor as emitted by the translator: `π` is the enumeration of projections of the
element type (`TagProj`, `NodeProj`, `EdgeProj` in Model/GraphOrder.lean). -/
structure KD (π : Type) where
  proj : π
  guard : Guard
  dir : Dir
  xf : Xf
  deriving DecidableEq, Repr

/-- A key descriptor with its projection interpreted. -/
structure KeyDesc (α : Type) where
  proj : α → Key
  guard : Guard
  dir : Dir
  xf : Xf

def KD.toDesc {π α : Type} (get : π → α → Key) (d : KD π) : KeyDesc α :=
  ⟨get d.proj, d.guard, d.dir, d.xf⟩

namespace KeyDesc
variable {α : Type}

/-- the quantity the `return` compares -/
def ordVal (k : KeyDesc α) (a : α) : Key := k.xf.app (k.proj a)

/-- the quantity the `if … != …` tests -/
def guardVal (k : KeyDesc α) (a : α) : Key :=
  match k.guard with
  | .raw => k.proj a
  | .abs => (k.proj a).map abs64
  | .same => k.ordVal a

/-- the order relation of this key on key values -/
def rel (k : KeyDesc α) (x y : Key) : Bool :=
  match k.dir with
  | .asc => Key.lt x y
  | .desc => Key.lt y x

def cmp (k : KeyDesc α) (a b : α) : Bool := k.rel (k.ordVal a) (k.ordVal b)

/-- guard and order test the same quantity -/
def proper (k : KeyDesc α) : Bool :=
  match k.guard, k.xf with
  | .same, _ => true
  | .raw, .id => true
  | .abs, .abs => true
  | _, _ => false
end KeyDesc

/-- THE interpreter: the Go comparator denoted by a descriptor list. -/
def lessOf {α : Type} : List (KeyDesc α) → α → α → Bool
  | [], _, _ => false
  | k :: ks, a, b => if k.guardVal a != k.guardVal b then k.cmp a b else lessOf ks a b

def AllProper {α : Type} (ks : List (KeyDesc α)) : Prop := ∀ k ∈ ks, k.proper = true

/-- equal order quantities on every key force equal identity -/
def KeysDetermineIdentity {α ι : Type} (ks : List (KeyDesc α)) (ident : α → ι) : Prop :=
  ∀ a b, (∀ k ∈ ks, k.ordVal a = k.ordVal b) → ident a = ident b

/-! ### syntactic checks on generated descriptor lists (decidable, run by `decide` per check) -/

def KD.proper {π : Type} (d : KD π) : Bool :=
  match d.guard, d.xf with
  | .same, _ => true
  | .raw, .id => true
  | .abs, .abs => true
  | _, _ => false

def allProperKD {π : Type} (ks : List (KD π)) : Bool := ks.all KD.proper

/-- the list contains projection `p` compared untransformed -/
def hasIdKey {π : Type} [DecidableEq π] (p : π) (ks : List (KD π)) : Bool :=
  ks.any (fun k => decide (k.proj = p) && decide (k.xf = Xf.id))

/-! ### the model's sort -/

/-- insert into a sorted list, before the first element that is not smaller -/
def insertBy {α : Type} (lt : α → α → Bool) (a : α) : List α → List α
  | [] => [a]
  | b :: l => if lt b a then b :: insertBy lt a l else a :: b :: l

/-- insertion sort; for a strict total order its result is THE sorted permutation (Lemmas/Order) -/
def sortBy {α : Type} (lt : α → α → Bool) (l : List α) : List α := l.foldr (insertBy lt) []

/-- what `sort.Sort` promises about its result: no adjacent inversion (`sort.IsSorted`) -/
def AdjSorted {α : Type} (lt : α → α → Bool) : List α → Prop
  | [] => True
  | [_] => True
  | a :: b :: l => lt b a = false ∧ AdjSorted lt (b :: l)

/-- decidable version used by the driver to validate an order produced by the Go code -/
def adjSortedB {α : Type} (lt : α → α → Bool) : List α → Bool
  | [] => true
  | [_] => true
  | a :: b :: l => !lt b a && adjSortedB lt (b :: l)

end PV.Order
