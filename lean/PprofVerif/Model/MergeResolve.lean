import PprofVerif.Model.Profile
/-
The *resolved* (pointer-shaped) view of a profile, shared by `Model/Merge.lean` and
`Spec/Weight.lean`.

Go's in-memory profile is a pointer graph: `Sample.Location []*Location`,
`Location.Mapping *Mapping`, `Line.Function *Function`.  `Model/Profile.lean` stores ids instead
of pointers; `resolve` follows the ids through the tables and produces exactly the tree Go code
sees when it dereferences the pointers.  For a profile satisfying `Profile.Valid` every id
resolves (`Lemmas/MergeResolve`), so nothing is lost; an id that does not resolve (impossible
for a Go pointer) makes `resolve` return `none`.

Also here: Go's fixed-width integer arithmetic used by merge (`int64` `+=`, `uint64` `-`).
Core Lean only.
-/
namespace PV
namespace Merge

/-! ### fixed-width arithmetic -/

/-- the value of an `int64` after an arithmetic result `z` wrapped around (two's complement). -/
def wrapI64 (z : Int) : Int :=
  (z + 9223372036854775808) % 18446744073709551616 - 9223372036854775808

/-- `uint64` subtraction `a - b`. -/
def subU64 (a b : Nat) : Nat := (a + (18446744073709551616 - b % 18446744073709551616)) % 18446744073709551616
/-- `uint64` addition `a + b`. -/
def addU64 (a b : Nat) : Nat := (a + b) % 18446744073709551616

/-! ### resolved view -/

structure RLine where
  fn : Option Function      -- `Line.Function` (nil = none)
  line : Int
  column : Int
  deriving Repr, DecidableEq

structure RLocation where
  id : Nat
  mapping : Option Mapping  -- `Location.Mapping` (nil = none)
  address : Nat
  lines : List RLine
  isFolded : Bool
  deriving Repr, DecidableEq

structure RSample where
  locs : List RLocation
  values : List Int
  label : List (Str × List Str)
  numLabel : List (Str × List Int)
  numUnit : List (Str × List Str)
  deriving Repr, DecidableEq

/-- `mapM` for `Option`, by structural recursion (so that proofs are plain inductions). -/
def optMap {α β} (f : α → Option β) : List α → Option (List β)
  | [] => some []
  | a :: as =>
    match f a with
    | none => none
    | some b =>
      match optMap f as with
      | none => none
      | some bs => some (b :: bs)

def resolveLine (p : Profile) (ln : Line) : Option RLine :=
  if ln.functionID = 0 then some { fn := none, line := ln.line, column := ln.column }
  else match p.findFunction ln.functionID with
    | none => none
    | some f => some { fn := some f, line := ln.line, column := ln.column }

def resolveMappingRef (p : Profile) (mid : Nat) : Option (Option Mapping) :=
  if mid = 0 then some none
  else match p.findMapping mid with
    | none => none
    | some m => some (some m)

def resolveLoc (p : Profile) (l : Location) : Option RLocation :=
  match resolveMappingRef p l.mappingID with
  | none => none
  | some m =>
    match optMap (resolveLine p) l.lines with
    | none => none
    | some lines => some { id := l.id, mapping := m, address := l.address, lines := lines, isFolded := l.isFolded }

def resolveLocID (p : Profile) (id : Nat) : Option RLocation :=
  if id = 0 then none
  else match p.findLocation id with
    | none => none
    | some l => resolveLoc p l

def resolveSample (p : Profile) (s : Sample) : Option RSample :=
  match optMap (resolveLocID p) s.locationIDs with
  | none => none
  | some locs => some { locs := locs, values := s.values, label := s.label, numLabel := s.numLabel, numUnit := s.numUnit }

/-- units of numeric label `k`: the Go map lookup `sample.NumUnit[k]` (a missing key gives the
nil slice, i.e. no units — this is Go's semantics, not a hidden failure). -/
def unitsOf (numUnit : List (Str × List Str)) (k : Str) : List Str :=
  match numUnit.lookup k with
  | none => []
  | some us => us

/-- all samples of `p` with their pointers followed; `none` if some id is dangling. -/
def resolve (p : Profile) : Option (List RSample) := optMap (resolveSample p) p.samples

end Merge
end PV
