import PprofVerif.Model.Codec
/-
The wire SCHEMA that `Model/Codec.lean` implements, as data, with a small generic interpreter.

For every message type of profile/encode.go this file gives
  * a *dictionary* `X.dict : String → Option (Acc X)` from the Go field name to the accessor of the
    model structure (the only place where Go names and model names are paired);
  * the encoder schema `X.encSchema` (ordered list of (tag, kind, Go field name)) and the decoder
    table `X.decTable` (index, kind, Go field name).
`Lemmas/CodecSchemaInterp.lean` proves, for ALL values, that interpreting the schema with
`encodeBy` / `applyBy` reproduces `X.encode` / `X.apply` of `Model/Codec.lean`; hence the schema
is tied to the model by theorems, not by eye.  `Spec/CodecSchemaExpected.lean` renders the
schemas into the vocabulary of the extractor (`Gen/CodecSchema.lean`, regenerated from the Go
source on every run) and `Props/C01Schema.lean` compares the two.  Core Lean only.
-/
namespace PV
namespace CodecSchema
open Wire Codec

/-- what a nested message type offers to the message that contains it -/
structure MsgCodec (C : Type) where
  name : String                       -- Go type name
  encode : C → Bytes
  apply : C → Field → Outcome C
  zero : C
  ints : C → String → Option Int      -- its int64 fields by Go name (for guards)

/-- accessor of one field of the model structure `M` -/
inductive Acc (M : Type) : Type 1
  | int (get : M → Int) (set : M → Int → M)
  | nat (get : M → Nat) (set : M → Nat → M)
  | bool (get : M → Bool) (set : M → Bool → M)
  | ints (get : M → List Int) (set : M → List Int → M)
  | nats (get : M → List Nat) (set : M → List Nat → M)
  | strs (get : M → List Str) (set : M → List Str → M)
  | msgs {C : Type} (c : MsgCodec C) (get : M → List C) (set : M → List C → M)
  | optMsg {C : Type} (c : MsgCodec C) (get : M → Option C) (set : M → Option C → M)

abbrev Dict (M : Type) := String → Option (Acc M)

/-- the int64 fields of a message, read through its dictionary -/
def intsOf {M : Type} (d : Dict M) (m : M) (f : String) : Option Int :=
  match d f with
  | some (.int get _) => some (get m)
  | _ => none

/-- Go type name of the nested message stored in field `f` ("" when `f` holds no message) -/
def msgNameOf {M : Type} (d : Dict M) (f : String) : String :=
  match d f with
  | some (.msgs c _ _) => c.name
  | some (.optMsg c _ _) => c.name
  | _ => ""

/-! ### encoder side -/

/-- the statement kinds of the `encode` methods -/
inductive EncKind
  | int64Opt | uint64Opt | boolOpt | int64 | int64s | uint64s | strings
  /-- `for _, x := range p.F { encodeMessage(b, tag, x) }` -/
  | messageLoop
  /-- `if v := p.F; v != nil && (v.a != 0 || v.b != 0 …) { encodeMessage(b, tag, p.F) }` -/
  | messageGuarded (nonZero : List String)
  deriving DecidableEq, Repr

structure EncStmt where
  tag : Nat
  kind : EncKind
  field : String
  deriving DecidableEq, Repr

/-- meaning of one statement (`none`: the schema is ill-typed for this dictionary) -/
def encStmt {M : Type} (d : Dict M) (m : M) (s : EncStmt) : Option Bytes :=
  match s.kind, d s.field with
  | .int64Opt, some (.int get _) => some (encodeInt64Opt s.tag (get m))
  | .uint64Opt, some (.nat get _) => some (encodeUint64Opt s.tag (get m))
  | .boolOpt, some (.bool get _) => some (encodeBoolOpt s.tag (get m))
  | .int64, some (.int get _) => some (encodeInt64 s.tag (get m))
  | .int64s, some (.ints get _) => some (encodeInt64s s.tag (get m))
  | .uint64s, some (.nats get _) => some (encodeUint64s s.tag (get m))
  | .strings, some (.strs get _) => some (encodeStrings s.tag (get m))
  | .messageLoop, some (.msgs c get _) => some ((get m).flatMap fun x => encodeMessage s.tag (c.encode x))
  | .messageGuarded nz, some (.optMsg c get _) =>
    match get m with
    | none => some []
    | some x =>
      match nz.mapM (c.ints x) with
      | none => none
      | some vs => some (if vs.any (· ≠ 0) then encodeMessage s.tag (c.encode x) else [])
  | _, _ => none

/-- an `encode` method: its statements one after the other -/
def encodeBy {M : Type} (d : Dict M) (m : M) : List EncStmt → Option Bytes
  | [] => some []
  | s :: r =>
    match encStmt d m s, encodeBy d m r with
    | some a, some b => some (a ++ b)
    | _, _ => none

/-! ### decoder side -/

/-- the shapes of the entries of the `[]decoder` tables -/
inductive DecKind
  /-- `nil` (index 0): the field is skipped -/
  | skip
  | int64 | uint64 | bool | int64s | uint64s
  /-- `x := new(T); pp.F = append(pp.F, x); return decodeMessage(b, x)` -/
  | appendNew
  /-- the same with the shared `b.tmpLines` scratch space (Location) -/
  | appendNewSharedLines
  /-- `n := len(s.F); s.F = append(s.F, T{}); return decodeMessage(b, &s.F[n])` -/
  | appendValue
  /-- `x := new(T); pp.F = x; return decodeMessage(b, x)` -/
  | setNew
  /-- `decodeStrings` followed by the check `F[0] != ""` -/
  | stringsFirstEmpty
  /-- `if F != 0 { return errConcatProfile }; return decodeInt64(b, &F)` -/
  | int64RejectIfSet
  deriving DecidableEq, Repr

structure DecEntry where
  index : Nat
  kind : DecKind
  field : String
  deriving DecidableEq, Repr

/-- meaning of one table entry applied to the decoded wire field `f` -/
def decEntry {M : Type} (d : Dict M) (m : M) (f : Field) (e : DecEntry) : Outcome M :=
  match e.kind, d e.field with
  | .skip, _ => pure m
  | .int64, some (.int _ set) => do let x ← decodeInt64 f; pure (set m x)
  | .uint64, some (.nat _ set) => do let x ← decodeUint64 f; pure (set m x)
  | .bool, some (.bool _ set) => do let x ← decodeBool f; pure (set m x)
  | .int64s, some (.ints get set) => do let x ← decodeInt64s f (get m); pure (set m x)
  | .uint64s, some (.nats get set) => do let x ← decodeUint64s f (get m); pure (set m x)
  | .appendNew, some (.msgs c get set) => do let x ← decodeMessage c.apply c.zero f; pure (set m (get m ++ [x]))
  | .appendNewSharedLines, some (.msgs c get set) => do let x ← decodeMessage c.apply c.zero f; pure (set m (get m ++ [x]))
  | .appendValue, some (.msgs c get set) => do let x ← decodeMessage c.apply c.zero f; pure (set m (get m ++ [x]))
  | .setNew, some (.optMsg c _ set) => do let x ← decodeMessage c.apply c.zero f; pure (set m (some x))
  | .stringsFirstEmpty, some (.strs get set) => do
      let s ← decodeString f
      let t := get m ++ [s]
      match t with
      | [] => .panic "stringTable[0]: index out of range"
      | s0 :: _ => if s0 ≠ [] then .err "string_table[0] must be ''" else pure (set m t)
  | .int64RejectIfSet, some (.int get set) =>
      if get m ≠ 0 then .err "concatenated profiles detected"
      else do let x ← decodeInt64 f; pure (set m x)
  | _, _ => .panic "schema: ill-typed decoder entry"

/-- `dec[b.field]` of proto.go `decodeMessage`: out of the table ⇒ skipped -/
def applyBy {M : Type} (d : Dict M) (m : M) (f : Field) : List DecEntry → Outcome M
  | [] => pure m
  | e :: r => if f.num = e.index then decEntry d m f e else applyBy d m f r

/-! ### the message types -/

def ValueTypeX.dict : Dict ValueTypeX
  | "typeX" => some (.int (·.typeX) fun m x => { m with typeX := x })
  | "unitX" => some (.int (·.unitX) fun m x => { m with unitX := x })
  | _ => none

def ValueTypeX.encSchema : List EncStmt :=
  [⟨1, .int64Opt, "typeX"⟩, ⟨2, .int64Opt, "unitX"⟩]

def ValueTypeX.decTable : List DecEntry :=
  [⟨0, .skip, ""⟩, ⟨1, .int64, "typeX"⟩, ⟨2, .int64, "unitX"⟩]

def ValueTypeX.codec : MsgCodec ValueTypeX :=
  { name := "ValueType", encode := ValueTypeX.encode, apply := ValueTypeX.apply, zero := {},
    ints := intsOf ValueTypeX.dict }

def LabelX.dict : Dict LabelX
  | "keyX" => some (.int (·.keyX) fun m x => { m with keyX := x })
  | "strX" => some (.int (·.strX) fun m x => { m with strX := x })
  | "numX" => some (.int (·.numX) fun m x => { m with numX := x })
  | "unitX" => some (.int (·.unitX) fun m x => { m with unitX := x })
  | _ => none

def LabelX.encSchema : List EncStmt :=
  [⟨1, .int64Opt, "keyX"⟩, ⟨2, .int64Opt, "strX"⟩, ⟨3, .int64Opt, "numX"⟩, ⟨4, .int64Opt, "unitX"⟩]

def LabelX.decTable : List DecEntry :=
  [⟨0, .skip, ""⟩, ⟨1, .int64, "keyX"⟩, ⟨2, .int64, "strX"⟩, ⟨3, .int64, "numX"⟩, ⟨4, .int64, "unitX"⟩]

def LabelX.codec : MsgCodec LabelX :=
  { name := "label", encode := LabelX.encode, apply := LabelX.apply, zero := {}, ints := intsOf LabelX.dict }

def SampleX.dict : Dict SampleX
  | "locationIDX" => some (.nats (·.locationIDX) fun m x => { m with locationIDX := x })
  | "Value" => some (.ints (·.value) fun m x => { m with value := x })
  | "labelX" => some (.msgs LabelX.codec (·.labelX) fun m x => { m with labelX := x })
  | _ => none

def SampleX.encSchema : List EncStmt :=
  [⟨1, .uint64s, "locationIDX"⟩, ⟨2, .int64s, "Value"⟩, ⟨3, .messageLoop, "labelX"⟩]

def SampleX.decTable : List DecEntry :=
  [⟨0, .skip, ""⟩, ⟨1, .uint64s, "locationIDX"⟩, ⟨2, .int64s, "Value"⟩, ⟨3, .appendValue, "labelX"⟩]

def SampleX.codec : MsgCodec SampleX :=
  { name := "Sample", encode := SampleX.encode, apply := SampleX.apply, zero := {}, ints := intsOf SampleX.dict }

def MappingX.dict : Dict MappingX
  | "ID" => some (.nat (·.id) fun m x => { m with id := x })
  | "Start" => some (.nat (·.start) fun m x => { m with start := x })
  | "Limit" => some (.nat (·.limit) fun m x => { m with limit := x })
  | "Offset" => some (.nat (·.offset) fun m x => { m with offset := x })
  | "fileX" => some (.int (·.fileX) fun m x => { m with fileX := x })
  | "buildIDX" => some (.int (·.buildIDX) fun m x => { m with buildIDX := x })
  | "HasFunctions" => some (.bool (·.hasFunctions) fun m x => { m with hasFunctions := x })
  | "HasFilenames" => some (.bool (·.hasFilenames) fun m x => { m with hasFilenames := x })
  | "HasLineNumbers" => some (.bool (·.hasLineNumbers) fun m x => { m with hasLineNumbers := x })
  | "HasInlineFrames" => some (.bool (·.hasInlineFrames) fun m x => { m with hasInlineFrames := x })
  | _ => none

def MappingX.encSchema : List EncStmt :=
  [⟨1, .uint64Opt, "ID"⟩, ⟨2, .uint64Opt, "Start"⟩, ⟨3, .uint64Opt, "Limit"⟩, ⟨4, .uint64Opt, "Offset"⟩,
   ⟨5, .int64Opt, "fileX"⟩, ⟨6, .int64Opt, "buildIDX"⟩,
   ⟨7, .boolOpt, "HasFunctions"⟩, ⟨8, .boolOpt, "HasFilenames"⟩, ⟨9, .boolOpt, "HasLineNumbers"⟩,
   ⟨10, .boolOpt, "HasInlineFrames"⟩]

def MappingX.decTable : List DecEntry :=
  [⟨0, .skip, ""⟩, ⟨1, .uint64, "ID"⟩, ⟨2, .uint64, "Start"⟩, ⟨3, .uint64, "Limit"⟩, ⟨4, .uint64, "Offset"⟩,
   ⟨5, .int64, "fileX"⟩, ⟨6, .int64, "buildIDX"⟩,
   ⟨7, .bool, "HasFunctions"⟩, ⟨8, .bool, "HasFilenames"⟩, ⟨9, .bool, "HasLineNumbers"⟩,
   ⟨10, .bool, "HasInlineFrames"⟩]

def MappingX.codec : MsgCodec MappingX :=
  { name := "Mapping", encode := MappingX.encode, apply := MappingX.apply, zero := {}, ints := intsOf MappingX.dict }

def LineX.dict : Dict LineX
  | "functionIDX" => some (.nat (·.functionIDX) fun m x => { m with functionIDX := x })
  | "Line" => some (.int (·.line) fun m x => { m with line := x })
  | "Column" => some (.int (·.column) fun m x => { m with column := x })
  | _ => none

def LineX.encSchema : List EncStmt :=
  [⟨1, .uint64Opt, "functionIDX"⟩, ⟨2, .int64Opt, "Line"⟩, ⟨3, .int64Opt, "Column"⟩]

def LineX.decTable : List DecEntry :=
  [⟨0, .skip, ""⟩, ⟨1, .uint64, "functionIDX"⟩, ⟨2, .int64, "Line"⟩, ⟨3, .int64, "Column"⟩]

def LineX.codec : MsgCodec LineX :=
  { name := "Line", encode := LineX.encode, apply := LineX.apply, zero := {}, ints := intsOf LineX.dict }

def LocationX.dict : Dict LocationX
  | "ID" => some (.nat (·.id) fun m x => { m with id := x })
  | "mappingIDX" => some (.nat (·.mappingIDX) fun m x => { m with mappingIDX := x })
  | "Address" => some (.nat (·.address) fun m x => { m with address := x })
  | "Line" => some (.msgs LineX.codec (·.line) fun m x => { m with line := x })
  | "IsFolded" => some (.bool (·.isFolded) fun m x => { m with isFolded := x })
  | _ => none

def LocationX.encSchema : List EncStmt :=
  [⟨1, .uint64Opt, "ID"⟩, ⟨2, .uint64Opt, "mappingIDX"⟩, ⟨3, .uint64Opt, "Address"⟩,
   ⟨4, .messageLoop, "Line"⟩, ⟨5, .boolOpt, "IsFolded"⟩]

def LocationX.decTable : List DecEntry :=
  [⟨0, .skip, ""⟩, ⟨1, .uint64, "ID"⟩, ⟨2, .uint64, "mappingIDX"⟩, ⟨3, .uint64, "Address"⟩,
   ⟨4, .appendValue, "Line"⟩, ⟨5, .bool, "IsFolded"⟩]

def LocationX.codec : MsgCodec LocationX :=
  { name := "Location", encode := LocationX.encode, apply := LocationX.apply, zero := {}, ints := intsOf LocationX.dict }

def FunctionX.dict : Dict FunctionX
  | "ID" => some (.nat (·.id) fun m x => { m with id := x })
  | "nameX" => some (.int (·.nameX) fun m x => { m with nameX := x })
  | "systemNameX" => some (.int (·.systemNameX) fun m x => { m with systemNameX := x })
  | "filenameX" => some (.int (·.filenameX) fun m x => { m with filenameX := x })
  | "StartLine" => some (.int (·.startLine) fun m x => { m with startLine := x })
  | _ => none

def FunctionX.encSchema : List EncStmt :=
  [⟨1, .uint64Opt, "ID"⟩, ⟨2, .int64Opt, "nameX"⟩, ⟨3, .int64Opt, "systemNameX"⟩,
   ⟨4, .int64Opt, "filenameX"⟩, ⟨5, .int64Opt, "StartLine"⟩]

def FunctionX.decTable : List DecEntry :=
  [⟨0, .skip, ""⟩, ⟨1, .uint64, "ID"⟩, ⟨2, .int64, "nameX"⟩, ⟨3, .int64, "systemNameX"⟩,
   ⟨4, .int64, "filenameX"⟩, ⟨5, .int64, "StartLine"⟩]

def FunctionX.codec : MsgCodec FunctionX :=
  { name := "Function", encode := FunctionX.encode, apply := FunctionX.apply, zero := {}, ints := intsOf FunctionX.dict }

def ProfileX.dict : Dict ProfileX
  | "SampleType" => some (.msgs ValueTypeX.codec (·.sampleType) fun m x => { m with sampleType := x })
  | "Sample" => some (.msgs SampleX.codec (·.sample) fun m x => { m with sample := x })
  | "Mapping" => some (.msgs MappingX.codec (·.mapping) fun m x => { m with mapping := x })
  | "Location" => some (.msgs LocationX.codec (·.location) fun m x => { m with location := x })
  | "Function" => some (.msgs FunctionX.codec (·.function) fun m x => { m with function := x })
  | "stringTable" => some (.strs (·.stringTable) fun m x => { m with stringTable := x })
  | "dropFramesX" => some (.int (·.dropFramesX) fun m x => { m with dropFramesX := x })
  | "keepFramesX" => some (.int (·.keepFramesX) fun m x => { m with keepFramesX := x })
  | "TimeNanos" => some (.int (·.timeNanos) fun m x => { m with timeNanos := x })
  | "DurationNanos" => some (.int (·.durationNanos) fun m x => { m with durationNanos := x })
  | "PeriodType" => some (.optMsg ValueTypeX.codec (·.periodType) fun m x => { m with periodType := x })
  | "Period" => some (.int (·.period) fun m x => { m with period := x })
  | "commentX" => some (.ints (·.commentX) fun m x => { m with commentX := x })
  | "defaultSampleTypeX" => some (.int (·.defaultSampleTypeX) fun m x => { m with defaultSampleTypeX := x })
  | "docURLX" => some (.int (·.docURLX) fun m x => { m with docURLX := x })
  | _ => none

def ProfileX.encSchema : List EncStmt :=
  [⟨1, .messageLoop, "SampleType"⟩, ⟨2, .messageLoop, "Sample"⟩, ⟨3, .messageLoop, "Mapping"⟩,
   ⟨4, .messageLoop, "Location"⟩, ⟨5, .messageLoop, "Function"⟩, ⟨6, .strings, "stringTable"⟩,
   ⟨7, .int64Opt, "dropFramesX"⟩, ⟨8, .int64Opt, "keepFramesX"⟩, ⟨9, .int64Opt, "TimeNanos"⟩,
   ⟨10, .int64Opt, "DurationNanos"⟩, ⟨11, .messageGuarded ["typeX", "unitX"], "PeriodType"⟩,
   ⟨12, .int64Opt, "Period"⟩, ⟨13, .int64s, "commentX"⟩, ⟨14, .int64, "defaultSampleTypeX"⟩,
   ⟨15, .int64Opt, "docURLX"⟩]

def ProfileX.decTable : List DecEntry :=
  [⟨0, .skip, ""⟩, ⟨1, .appendNew, "SampleType"⟩, ⟨2, .appendNew, "Sample"⟩, ⟨3, .appendNew, "Mapping"⟩,
   ⟨4, .appendNewSharedLines, "Location"⟩, ⟨5, .appendNew, "Function"⟩, ⟨6, .stringsFirstEmpty, "stringTable"⟩,
   ⟨7, .int64, "dropFramesX"⟩, ⟨8, .int64, "keepFramesX"⟩, ⟨9, .int64RejectIfSet, "TimeNanos"⟩,
   ⟨10, .int64, "DurationNanos"⟩, ⟨11, .setNew, "PeriodType"⟩, ⟨12, .int64, "Period"⟩,
   ⟨13, .int64s, "commentX"⟩, ⟨14, .int64, "defaultSampleTypeX"⟩, ⟨15, .int64, "docURLX"⟩]

def ProfileX.codec : MsgCodec ProfileX :=
  { name := "Profile", encode := ProfileX.encode, apply := ProfileX.apply, zero := {}, ints := intsOf ProfileX.dict }

end CodecSchema
end PV
