import PprofVerif.Model.Profile
/-
Executable model of `report.(*Report).Stacks()` (internal/report/stacks.go), the data served to
the flame-graph view: `makeInitialStacks` (source interning by
(function name, file name, line, column, inlined), unique names, self accumulation), `fillPlaces`
(per stack a seen set, first index), and the total of `report.New` (`computeTotal`).

Go slices are `Slice α` = elements + "is non-nil" flag (a nil slice is JSON `null`, the thing the
property forbids).  Go indexing is checked: `Slice.get`/`Slice.upd` return `Outcome.panic` when the
index is out of range — nothing is defaulted.  Core Lean only (linked into `pvdrv-C17`).

Not modelled (parameters / outside the property): `Display` (`shortNameList`,
`fileNameSuffixes`: regexp), `Color` (sha256), `Scale`/`Unit` (`measurement.Scale`: float), the
`?n?` names invented for lines whose Function is nil (such lines are rejected by `CheckValid`;
the model answers `err` for them), (TrimPath/SourcePath are modelled: `trimPath`, Unix path syntax).
-/
namespace PV.Stacks
open PV

/-! ### Go slices with their nil-ness -/

structure Slice (α : Type) where
  nonnil : Bool
  elems : List α
  deriving Repr, DecidableEq

namespace Slice
variable {α : Type}
/-- `[]T{a, b, …}` — a composite literal is never nil, even when empty. -/
def lit (l : List α) : Slice α := ⟨true, l⟩
/-- `var s []T` / a field left out of a struct literal. -/
def null : Slice α := ⟨false, []⟩
/-- `append(s, x)` — the result is never nil. -/
def push (s : Slice α) (x : α) : Slice α := ⟨true, s.elems ++ [x]⟩
def len (s : Slice α) : Nat := s.elems.length
/-- `s[i]` -/
def get (s : Slice α) (i : Nat) : Outcome α :=
  match s.elems[i]? with
  | some x => .ok x
  | none => .panic "index out of range"
/-- `s[i] = f(s[i])` -/
def upd (s : Slice α) (i : Nat) (f : α → α) : Outcome (Slice α) :=
  if i < s.elems.length then .ok ⟨s.nonnil, s.elems.modify i f⟩ else .panic "index out of range"
end Slice

/-! ### frames of a sample, as the loops of `makeInitialStacks` read them -/

/-- What `getSrc` looks at: the line's function (name, file, id) and position, and the flag. -/
structure Frame where
  name : Str      -- fn.Name
  file : Str      -- fn.Filename
  fnID : Nat      -- fn.ID
  line : Int
  column : Int
  inlined : Bool
  deriving Repr, DecidableEq

/-- `type key struct { funcName, fileName string; line, column int64; inlined bool }` -/
structure Key where
  name : Str
  file : Str
  line : Int
  column : Int
  inlined : Bool
  deriving Repr, DecidableEq

def Frame.key (f : Frame) : Key := ⟨f.name, f.file, f.line, f.column, f.inlined⟩

/-- `for j := n-1; j >= 0; j-- { … xs[j] … }` as the list of visited `(j, xs[j])`. -/
def downFrom {α : Type} (xs : List α) : Nat → Outcome (List (Nat × α))
  | 0 => .ok []
  | j+1 =>
    match xs[j]? with
    | some x => do let r ← downFrom xs j; pure ((j, x) :: r)
    | none => .panic "index out of range"

def mapO {α β : Type} (f : α → Outcome β) : List α → Outcome (List β)
  | [] => .ok []
  | a :: r => do let b ← f a; let bs ← mapO f r; pure (b :: bs)

/-- inner loop: the lines of one location, last line first; `inlined := (j != len(loc.Line)-1)`. -/
def locFrames (p : Profile) (loc : Location) : Outcome (List Frame) := do
  let js ← downFrom loc.lines loc.lines.length
  mapO (fun (jl : Nat × Line) =>
    match p.findFunction jl.2.functionID with
    | some fn => .ok { name := fn.name, file := fn.filename, fnID := fn.id, line := jl.2.line,
                        column := jl.2.column, inlined := decide (jl.1 ≠ loc.lines.length - 1) }
    | none => .err "line without Function (invalid profile; `?n?` names are not modelled)") js

/-- outer loop: the locations of one sample, last (root-most) first.  A location id that does
not resolve stands for a nil `*Location`: dereferencing it panics. -/
def sampleFrames (p : Profile) (s : Sample) : Outcome (List Frame) := do
  let is ← downFrom s.locationIDs s.locationIDs.length
  let fss ← mapO (fun (il : Nat × Nat) =>
    match p.findLocation il.2 with
    | some loc => locFrames p loc
    | none => .panic "nil Location") is
  pure fss.flatten

/-- `rpt.options.SampleValue(sample.Value)` for the value extractor `v[index]`. -/
def sampleValue (idx : Nat) (s : Sample) : Outcome Int :=
  match s.values[idx]? with
  | some v => .ok v
  | none => .panic "index out of range"

/-- everything the sample loop reads from the profile: per sample its value and its frames
(caller first). -/
def resolve (p : Profile) (idx : Nat) : Outcome (List (Int × List Frame)) :=
  mapO (fun s => do
    let v ← sampleValue idx s
    let fs ← sampleFrames p s
    pure (v, fs)) p.samples

/-! ### names -/

/-- decimal digits (fuel = n+1 suffices; written structurally so that it reduces in the kernel). -/
def natDigitsAux : Nat → Nat → List UInt8 → List UInt8
  | 0, _, acc => acc
  | fuel+1, n, acc =>
    let acc' := UInt8.ofNat (48 + n % 10) :: acc
    if n / 10 = 0 then acc' else natDigitsAux fuel (n / 10) acc'
def decNat (n : Nat) : Str := natDigitsAux (n+1) n []
def dec (i : Int) : Str := if i < 0 then 45 :: decNat i.natAbs else decNat i.natAbs
def colon : Str := [58]
def hash : Str := [35]

/-- `addLineInfo` -/
def addLineInfo (str : Str) (line column : Int) : Str :=
  if column ≠ 0 then str ++ colon ++ dec line ++ colon ++ dec column
  else if line ≠ 0 then str ++ colon ++ dec line
  else str

/-- "/proc/self/cwd/" and "/proc/self/cwd/./" (byte literals: they reduce in the kernel) -/
def cwd : Str := [47, 112, 114, 111, 99, 47, 115, 101, 108, 102, 47, 99, 119, 100, 47]
def cwdDot : Str := cwd ++ [46, 47]

/-- `trimPath(path, "", "")`: with no trim path and no search path configured only the two
built-in prefixes are removed. -/
def trimPathDefault (path : Str) : Str :=
  if cwdDot.isPrefixOf path then path.drop cwdDot.length
  else if cwd.isPrefixOf path then path.drop cwd.length
  else path

/-- the report options `Stacks()` reads: `-trim_path` and `-source_path`. -/
structure Opts where
  trimPath : Str
  sourcePath : Str
  deriving Repr, DecidableEq

def Opts.default : Opts := ⟨[], []⟩

/-- `filepath.SplitList`: split at ':'; the empty string is the empty list. -/
def splitListAux : List UInt8 → List UInt8 → List Str
  | [], cur => [cur.reverse]
  | b :: r, cur => if b = 58 then cur.reverse :: splitListAux r [] else splitListAux r (b :: cur)
def splitList (s : Str) : List Str := if s = [] then [] else splitListAux s []

def dropTrailingSlashes (s : Str) : Str := (s.reverse.dropWhile (· = 47)).reverse
def afterLastSlash (s : Str) : Str := (s.reverse.takeWhile (· ≠ 47)).reverse

/-- `filepath.Base` (Unix): "" is ".", only slashes is "/", else the last element. -/
def pathBase (s : Str) : Str :=
  if s = [] then [46]
  else
    let t := dropTrailingSlashes s
    if t = [] then [47] else afterLastSlash t

/-- `strings.Index(s, sub)`: position of the first occurrence. -/
def indexOf (sub : Str) : Str → Nat → Option Nat
  | [], i => if sub = [] then some i else none
  | b :: r, i => if sub.isPrefixOf (b :: r) then some i else indexOf sub r (i+1)

def withSlash (t : Str) : Str := if t.getLast? = some 47 then t else t ++ [47]

def firstPrefix (path : Str) : List Str → Option Str
  | [] => none
  | t :: r => if (withSlash t).isPrefixOf path then some (path.drop (withSlash t).length) else firstPrefix path r

def firstBase (path : Str) : List Str → Option Str
  | [] => none
  | dir :: r =>
    let want := [47] ++ pathBase dir ++ [47]
    match indexOf want path 0 with
    | some found => some (path.drop (found + want.length))
    | none => firstBase path r

/-- `trimPath(path, trimPath, searchPath)` (internal/report/source.go), Unix paths: without a trim
path, the first search-path directory whose base name occurs as a component `/<base>/` cuts the
path after that component; otherwise (or if none occurs) the first of the trim prefixes and the
two built-in ones that is a prefix of the path is removed; otherwise the path is unchanged. -/
def trimPath (o : Opts) (path : Str) : Str :=
  match (if o.trimPath = [] then firstBase path (splitList o.sourcePath) else none) with
  | some r => r
  | none =>
    match firstPrefix path (splitList o.trimPath ++ [cwdDot, cwd]) with
    | some r => r
    | none => path

def Key.fileName (k : Key) (o : Opts) : Str := trimPath o k.file
/-- `x.FullName`: the function name, or the (trimmed) file name when the name is empty (file
granularity), with line information appended. -/
def Key.fullName (k : Key) (o : Opts) : Str :=
  if k.name ≠ [] then addLineInfo k.name k.line k.column
  else addLineInfo (k.fileName o) k.line k.column

/-! ### the stack set -/

structure Source where
  fullName : Str
  fileName : Str
  uniqueName : Str
  inlined : Bool
  places : Slice (Nat × Nat)      -- (Stack, Pos)
  self : Int
  deriving Repr, DecidableEq

structure Stack where
  value : Int
  sources : Slice Nat
  deriving Repr, DecidableEq

structure StackSet where
  total : Int
  stacks : Slice Stack
  sources : Slice Source
  deriving Repr, DecidableEq

/-- state of `makeInitialStacks`: `s.Sources`, the `srcs` map, `seenFunctions`. -/
structure St where
  sources : Slice Source
  srcs : List (Key × Nat)
  seenFunctions : List Str
  deriving Repr

def rootSource : Source :=
  { fullName := Str.ofString "root", fileName := [], uniqueName := [], inlined := false,
    places := Slice.lit [], self := 0 }

def St.init : St := { sources := Slice.lit [rootSource], srcs := [], seenFunctions := [] }

/-- the closure `getSrc` (for a line with a Function). -/
def getSrc (o : Opts) (st : St) (f : Frame) : St × Nat :=
  match st.srcs.lookup f.key with
  | some i => (st, i)
  | none =>
    let full := f.key.fullName o
    let x : Source :=
      { fullName := full, fileName := f.key.fileName o,
        uniqueName := if st.seenFunctions.contains full then full ++ hash ++ decNat f.fnID else full,
        inlined := f.inlined, places := Slice.lit [], self := 0 }
    let sources := st.sources.push x
    ({ sources := sources, srcs := (f.key, sources.len - 1) :: st.srcs,
       seenFunctions := if st.seenFunctions.contains full then st.seenFunctions
                        else full :: st.seenFunctions },
     sources.len - 1)

/-- the two inner loops of one sample, after the reads: append `getSrc` of every frame. -/
def pushFrames (o : Opts) (st : St) (idxs : Slice Nat) (fs : List Frame) : St × Slice Nat :=
  fs.foldl (fun (acc : St × Slice Nat) f => let r := getSrc o acc.1 f; (r.1, acc.2.push r.2)) (st, idxs)

/-- body of `for _, sample := range rpt.prof.Sample`. -/
def sampleStep (o : Opts) (acc : St × Slice Stack) (x : Int × List Frame) : Outcome (St × Slice Stack) := do
  let r := pushFrames o acc.1 (Slice.lit [0]) x.2
  let leaf ← r.2.get (r.2.len - 1)
  let sources ← r.1.sources.upd leaf (fun s => { s with self := s.self + x.1 })
  pure ({ r.1 with sources := sources }, acc.2.push { value := x.1, sources := r.2 })

def foldO {σ α : Type} (f : σ → α → Outcome σ) : σ → List α → Outcome σ
  | s, [] => .ok s
  | s, a :: r => do let s' ← f s a; foldO f s' r

def makeInitialStacks (o : Opts) (rs : List (Int × List Frame)) : Outcome (St × Slice Stack) :=
  foldO (sampleStep o) (St.init, Slice.lit []) rs

/-- inner loop of `fillPlaces` for stack number `a`: position `j`, the seen set, the sources. -/
def fillStack (a : Nat) : List Nat → Nat → List Nat → Slice Source → Outcome (Slice Source)
  | [], _, _, S => .ok S
  | src :: rest, j, seen, S =>
    if seen.contains src then fillStack a rest (j+1) seen S
    else do
      let S' ← S.upd src (fun s => { s with places := s.places.push (a, j) })
      fillStack a rest (j+1) (src :: seen) S'

def fillPlaces : List Stack → Nat → Slice Source → Outcome (Slice Source)
  | [], _, S => .ok S
  | st :: rest, a, S => do
    let S' ← fillStack a st.sources.elems 0 [] S
    fillPlaces rest (a+1) S'

/-- `Sample.DiffBaseSample`: label `pprof::base` has the value `true`. -/
def diffBase (s : Sample) : Bool :=
  match s.label.lookup (Str.ofString "pprof::base") with
  | some vs => vs.contains (Str.ofString "true")
  | none => false

/-- `computeTotal` without a mean divisor: Σ|v|, restricted to diff-base samples when those
have a positive sum.  (int64 wrap-around is not modelled.) -/
def computeTotal (rs : List (Int × Bool)) : Int :=
  let total := (rs.map fun x => (x.1.natAbs : Int)).sum
  let diffTotal := ((rs.filter (·.2)).map fun x => (x.1.natAbs : Int)).sum
  if diffTotal > 0 then diffTotal else total

/-- the part of `Stacks()` after the reads. -/
def build (o : Opts) (total : Int) (rs : List (Int × List Frame)) : Outcome StackSet := do
  let r ← makeInitialStacks o rs
  let sources ← fillPlaces r.2.elems 0 r.1.sources
  pure { total := total, stacks := r.2, sources := sources }

/-- `report.New(prof, {SampleValue: v[idx]}).Stacks()` -/
def stacks (o : Opts) (p : Profile) (idx : Nat) : Outcome StackSet := do
  let rs ← resolve p idx
  build o (computeTotal ((rs.zip p.samples).map fun x => (x.1.1, diffBase x.2))) rs

end PV.Stacks
