import PprofVerif.Model.MergeResolve
import PprofVerif.Model.Wire
/-
Executable model of profile/merge.go: `Merge`, `Compact`, `combineHeaders`, `compatible`,
the four identity keys (`Function.key`, `Mapping.key`, `Location.key`, `sampleKey` — the two
string-valued ones byte for byte), zero-sample skipping and the re-merge recursion.

Formulation.  The Go code threads four append-only memo tables (`pm.functions`, `pm.mappings`,
`pm.locations`, `pm.samples`: key ↦ first entity seen with that key) through one traversal
(sources in order; per source the pre-inserted first mapping, then the non-zero samples in order;
per sample its locations; per location its mapping, then the functions of its lines).  An entity
receives the id `len(table)+1` the first time its key is seen.  The model computes the same
tables as *first occurrences of keys along that traversal* (`internBy`), one table after the
other, and the id of an entity as the position of its key in the table (`pos … + 1`).  The
per-source by-id caches (`locationsByID`, `functionsByID`, `mappingsByID`) only short-cut a
recomputation that returns the same entity for profiles with unique ids (`Profile.Valid`), so
they do not appear.  That this formulation produces *the same tables with the same ids in the
same order* as the real stateful code is measured on every run by the correspondence check
(`harness/c03.go`, distribution key `model-output-identical`).

The model mirrors the code **as repaired** by /verif/fixes/C03-*.patch:
  * `Location.key` writes the three fields of line `i` at `i*3, i*3+1, i*3+2`;
  * `sampleKey` writes the number of keys in front of the string-label and numeric-label sections;
  * `combineHeaders` ignores `TimeNanos == 0` when looking for the earliest time.
(The fourth repair — copying `SampleType`/`PeriodType` instead of sharing the pointers — is
invisible in an id-based model; it is checked on the Go side.)

Core Lean only.
-/
namespace PV
namespace Merge
open PV.Wire (encodeVarint toU64)

/-! ### generic interning (DESIGN Appendix A.1) -/

/-- position of the first occurrence of `k` (= `length` when absent). -/
def pos {κ} [DecidableEq κ] (k : κ) : List κ → Nat
  | [] => 0
  | x :: xs => if x = k then 0 else pos k xs + 1

/-- one `if _, ok := memo[key e]; !ok { memo[key e] = e; table = append(table, e) }`. -/
def internStep {ε κ} [DecidableEq κ] (key : ε → κ) (tab : List ε) (e : ε) : List ε :=
  if key e ∈ tab.map key then tab else tab ++ [e]

/-- the append-only table after the entities `es` went through a memo keyed by `key`:
the first entity seen under each key, in order of first appearance. -/
def internBy {ε κ} [DecidableEq κ] (key : ε → κ) (es : List ε) : List ε :=
  es.foldl (internStep key) []

/-- the id (`len(table)+1` at insertion time) of the entry stored under key `k`. -/
def idOf {ε κ} [DecidableEq κ] (key : ε → κ) (tab : List ε) (k : κ) : Nat :=
  pos k (tab.map key) + 1

/-- the entry stored under `k`. -/
def entryOf {ε κ} [DecidableEq κ] (key : ε → κ) (tab : List ε) (k : κ) : Option ε :=
  tab.find? (fun e => decide (key e = k))

/-! ### the keys -/

def isZeroSample (vs : List Int) : Bool := vs.all (· == 0)

/-- `functionKey` -/
structure FunctionKey where
  startLine : Int
  name : Str
  systemName : Str
  fileName : Str
  deriving Repr, DecidableEq

/-- `(*Function).key` -/
def functionKey (f : Function) : FunctionKey :=
  { startLine := f.startLine, name := f.name, systemName := f.systemName, fileName := f.filename }

/-- `mappingKey` -/
structure MappingKey where
  size : Nat
  offset : Nat
  buildIDOrFile : Str
  deriving Repr, DecidableEq

/-- `(*Mapping).key` -/
def mappingKey (m : Mapping) : MappingKey :=
  let size := subU64 m.limit m.start
  let size := addU64 size (0x1000 - 1)      -- size + mapsizeRounding - 1
  let size := size - size % 0x1000
  { size := size, offset := m.offset,
    buildIDOrFile := if m.buildID ≠ [] then m.buildID else if m.file ≠ [] then m.file else [] }

def hexDigitB (d : Nat) : UInt8 := if d < 10 then UInt8.ofNat (48 + d) else UInt8.ofNat (87 + d)

/-- `strconv.FormatUint(n, 16)` -/
def hexNat (n : Nat) : Str :=
  if _h : n < 16 then [hexDigitB n] else hexNat (n / 16) ++ [hexDigitB (n % 16)]
termination_by n
decreasing_by omega

/-- `strconv.FormatInt(x, 16)` -/
def fmtInt (x : Int) : Str := if x < 0 then 0x2d :: hexNat (-x).toNat else hexNat x.toNat

/-- `strings.Join(xs, "|")` for a one-byte separator. -/
def joinSep (sep : UInt8) : List Str → Str
  | [] => []
  | [x] => x
  | x :: y :: r => x ++ sep :: joinSep sep (y :: r)

/-- the three slots of one line in `Location.key` (nil function: slot left empty). -/
def lineFields (ln : Line) : List Str :=
  [if ln.functionID = 0 then [] else hexNat ln.functionID, fmtInt ln.line, fmtInt ln.column]

/-- `locationKey.lines` (as repaired: slots `i*3, i*3+1, i*3+2`). -/
def linesKey (lines : List Line) : Str := joinSep 0x7c (lines.flatMap lineFields)

/-- `locationKey` -/
structure LocationKey where
  addr : Nat
  mappingID : Nat
  lines : Str
  isFolded : Bool
  deriving Repr, DecidableEq

/-- `(*Location).key` of a location of the merged profile whose mapping (if any) starts at `mstart`. -/
def locationKey (mstart : Nat) (l : Location) : LocationKey :=
  { addr := if l.mappingID = 0 then l.address else subU64 l.address mstart,
    mappingID := l.mappingID, lines := linesKey l.lines, isFolded := l.isFolded }

/-- `putNumber` (`binary.PutUvarint` is the protobuf base-128 varint) -/
def putNumber (n : Nat) : Str := encodeVarint n
/-- `putDelimitedString` -/
def putDelimited (s : Str) : Str := putNumber s.length ++ s

def putStrLabel (kv : Str × List Str) : Str :=
  putDelimited kv.1 ++ putNumber kv.2.length ++ kv.2.flatMap putDelimited

def putNumLabel (kvu : Str × (List Int × List Str)) : Str :=
  putDelimited kvu.1 ++ putNumber kvu.2.1.length ++ kvu.2.1.flatMap (fun v => putNumber (toU64 v)) ++
  putNumber kvu.2.2.length ++ kvu.2.2.flatMap putDelimited

/-- numeric labels with the units `sample.NumUnit[k]` that `sampleKey`/`mapSample` pair them with. -/
def labelsWithUnits (numLabel : List (Str × List Int)) (numUnit : List (Str × List Str)) :
    List (Str × (List Int × List Str)) :=
  numLabel.map fun kv => (kv.1, (kv.2, unitsOf numUnit kv.1))

/-- `pm.sampleKey` evaluated on the already remapped sample (as repaired: each label section is
preceded by its number of keys). Label maps are key-sorted lists, so list order = `sortedKeys`. -/
def sampleKey (s : Sample) : Str :=
  s.locationIDs.flatMap putNumber ++ putNumber 0 ++
  putNumber s.label.length ++ s.label.flatMap putStrLabel ++
  putNumber s.numLabel.length ++ (labelsWithUnits s.numLabel s.numUnit).flatMap putNumLabel

/-! ### traversal and tables -/

/-- one source profile as the Go code sees it. -/
structure Src where
  samples : List RSample
  firstMapping : Option Mapping      -- `src.Mapping[0]` when `len(src.Mapping) > 0`
  deriving Repr

def resolveSrc (p : Profile) : Option Src :=
  match resolve p with
  | none => none
  | some rs => some { samples := rs, firstMapping := p.mappings.head? }

/-- the samples `mapSample` is called on: `!isZeroSample(s)`. -/
def processed (src : Src) : List RSample := src.samples.filter fun s => !isZeroSample s.values

def allSamples (srcs : List Src) : List RSample := srcs.flatMap processed
def allLocs (srcs : List Src) : List RLocation := (allSamples srcs).flatMap (·.locs)
def funcsOfLoc (l : RLocation) : List Function := l.lines.filterMap (·.fn)
def allFuncs (srcs : List Src) : List Function := (allLocs srcs).flatMap funcsOfLoc

/-- mappings in the order `mapMapping` meets them, `acc` = those met in earlier sources
(`len(pm.mappings) == 0 && len(src.Mapping) > 0` pre-inserts the source's first mapping). -/
def seenMappings : List Mapping → List Src → List Mapping
  | acc, [] => acc
  | acc, src :: rest =>
    let acc := if acc.isEmpty then acc ++ src.firstMapping.toList else acc
    seenMappings (acc ++ ((processed src).flatMap (·.locs)).filterMap (·.mapping)) rest

/-- first mapping seen with the key of `m` (`pm.mappings[m.key()]`).  `m` itself is in the
traversal whenever this is called, so the `none` branch is never taken
(`Lemmas/MergeIntern.firstSeen_key`); it is not a Go failure that is being defaulted. -/
def firstSeen (mtab : List Mapping) (m : Mapping) : Mapping :=
  match entryOf mappingKey mtab (mappingKey m) with
  | some m' => m'
  | none => m

def remapLine (ftab : List Function) (ln : RLine) : Line :=
  { functionID := match ln.fn with
      | none => 0
      | some f => idOf functionKey ftab (functionKey f),
    line := ln.line, column := ln.column }

/-- the `Location` built by `mapLocation` (before it gets its id). -/
def remapLoc (ftab : List Function) (mtab : List Mapping) (l : RLocation) : Location :=
  match l.mapping with
  | none =>
    { id := 0, mappingID := 0, address := l.address, lines := l.lines.map (remapLine ftab), isFolded := l.isFolded }
  | some m =>
    -- mi.offset = int64(mi.m.Start) - int64(src.Start);  Address = uint64(int64(src.Address) + mi.offset)
    { id := 0, mappingID := idOf mappingKey mtab (mappingKey m),
      address := addU64 l.address (subU64 (firstSeen mtab m).start m.start),
      lines := l.lines.map (remapLine ftab), isFolded := l.isFolded }

/-- `l.key()` of the remapped location. -/
def locKeyOf (ftab : List Function) (mtab : List Mapping) (l : RLocation) : LocationKey :=
  locationKey (match l.mapping with | none => 0 | some m => (firstSeen mtab m).start) (remapLoc ftab mtab l)

def remapSample (lid : RLocation → Nat) (s : RSample) : Sample :=
  { locationIDs := s.locs.map lid, values := s.values, label := s.label, numLabel := s.numLabel,
    numUnit := s.numLabel.map fun kv => (kv.1, unitsOf s.numUnit kv.1) }

/-- `ss.Value[i] += v` for every index of `src` (indices beyond `acc` panic, see `mapSampleStep`). -/
def addValues : List Int → List Int → List Int
  | a :: as, b :: bs => wrapI64 (a + b) :: addValues as bs
  | as, [] => as
  | [], _ :: _ => []

def bump (k : Str) (vs : List Int) (e : Str × Sample) : Str × Sample :=
  if e.1 = k then (e.1, { e.2 with values := addValues e.2.values vs }) else e

/-- `mapSample` on the sample memo (`tab`: key ↦ sample, in insertion order). -/
def mapSampleStep (tab : List (Str × Sample)) (ks : Str × Sample) : Outcome (List (Str × Sample)) :=
  if tab.any (fun e => decide (e.1 = ks.1) && decide (e.2.values.length < ks.2.values.length)) then
    .panic "index out of range [mapSample ss.Value[i]]"
  else if ks.1 ∈ tab.map (·.1) then .ok (tab.map (bump ks.1 ks.2.values))
  else .ok (tab ++ [ks])

def accumulate : List (Str × Sample) → List (Str × Sample) → Outcome (List (Str × Sample))
  | tab, [] => .ok tab
  | tab, x :: xs =>
    match mapSampleStep tab x with
    | .ok t => accumulate t xs
    | .err e => .err e
    | .panic s => .panic s

/-- ids `start, start+1, …` in table order. -/
def renum {ε} (setId : ε → Nat → ε) : Nat → List ε → List ε
  | _, [] => []
  | n, e :: es => setId e n :: renum setId (n + 1) es

/-! ### headers -/

/-- `equalValueType` on possibly-nil pointers. -/
def equalValueType (a b : Option ValueType) : Outcome Bool :=
  match a, b with
  | some x, some y => .ok (x.typ == y.typ && x.unit == y.unit)
  | _, _ => .panic "nil pointer dereference [equalValueType]"

def sampleTypesEqual : List ValueType → List ValueType → Bool
  | [], [] => true
  | x :: xs, y :: ys => (x.typ == y.typ && x.unit == y.unit) && sampleTypesEqual xs ys
  | _, _ => false

/-- `(*Profile).compatible` -/
def compatible (p pb : Profile) : Outcome Unit :=
  match equalValueType p.periodType pb.periodType with
  | .ok true =>
    if p.sampleType.length ≠ pb.sampleType.length then .err "incompatible sample types"
    else if sampleTypesEqual p.sampleType pb.sampleType then .ok () else .err "incompatible sample types"
  | .ok false => .err "incompatible period types"
  | .err e => .err e
  | .panic s => .panic s

def compatibleAll (first : Profile) : List Profile → Outcome Unit
  | [] => .ok ()
  | s :: rest =>
    match compatible first s with
    | .ok _ => compatibleAll first rest
    | .err e => .err e
    | .panic p => .panic p

structure HdrAcc where
  timeNanos : Int := 0
  durationNanos : Int := 0
  period : Int := 0
  comments : List Str := []
  docURL : Str := []
  defaultSampleType : Str := []
  deriving Repr

def addComment (cs : List Str) (c : Str) : List Str := if c ∈ cs then cs else cs ++ [c]

/-- body of the `for _, s := range srcs` loop of `combineHeaders` (time rule as repaired). -/
def hdrStep (a : HdrAcc) (s : Profile) : HdrAcc :=
  { timeNanos := if s.timeNanos ≠ 0 ∧ (a.timeNanos = 0 ∨ s.timeNanos < a.timeNanos) then s.timeNanos else a.timeNanos,
    durationNanos := wrapI64 (a.durationNanos + s.durationNanos),
    period := if a.period = 0 ∨ a.period < s.period then s.period else a.period,
    comments := s.comments.foldl addComment a.comments,
    defaultSampleType := if a.defaultSampleType = [] then s.defaultSampleType else a.defaultSampleType,
    docURL := if a.docURL = [] then s.docURL else a.docURL }

/-- `combineHeaders`: the merged profile without samples and tables. -/
def combineHeaders (first : Profile) (rest : List Profile) : Outcome Profile :=
  match compatibleAll first rest with
  | .err e => .err e
  | .panic s => .panic s
  | .ok _ =>
    let a := (first :: rest).foldl hdrStep {}
    .ok { sampleType := first.sampleType, defaultSampleType := a.defaultSampleType, samples := [],
          mappings := [], locations := [], functions := [], comments := a.comments, docURL := a.docURL,
          dropFrames := first.dropFrames, keepFrames := first.keepFrames, timeNanos := a.timeNanos,
          durationNanos := a.durationNanos, periodType := first.periodType, period := a.period }

/-! ### Merge -/

/-- everything `Merge` computes before the zero-sample check. -/
structure Tables where
  ftab : List Function
  mtab : List Mapping
  ltab : List (LocationKey × Location)
  deriving Repr

def buildTables (srcs : List Src) : Tables :=
  let ftab := internBy functionKey (allFuncs srcs)
  let mtab := internBy mappingKey (seenMappings [] srcs)
  { ftab := ftab, mtab := mtab,
    ltab := internBy Prod.fst ((allLocs srcs).map fun l => (locKeyOf ftab mtab l, remapLoc ftab mtab l)) }

def Tables.lid (t : Tables) (l : RLocation) : Nat :=
  idOf Prod.fst t.ltab (locKeyOf t.ftab t.mtab l)

def keyedSample (t : Tables) (s : RSample) : Str × Sample :=
  let s' := remapSample t.lid s
  (sampleKey s', s')

/-- one pass of `Merge` (the body before `for _, s := range p.Sample { if isZeroSample(s) … }`). -/
def mergeOnce (ps : List Profile) : Outcome Profile :=
  match ps with
  | [] => .err "no profiles to merge"
  | first :: rest =>
    match combineHeaders first rest with
    | .err e => .err e
    | .panic s => .panic s
    | .ok hdr =>
      match optMap resolveSrc ps with
      | none => .panic "model: dangling id (not a Go state)"
      | some srcs =>
        let t := buildTables srcs
        match accumulate [] ((allSamples srcs).map (keyedSample t)) with
        | .err e => .err e
        | .panic s => .panic s
        | .ok stab =>
          .ok { hdr with
                samples := stab.map (·.2),
                mappings := renum (fun (m : Mapping) i => { m with id := i }) 1 t.mtab,
                locations := renum (fun (l : Location) i => { l with id := i }) 1 (t.ltab.map (·.2)),
                functions := renum (fun (f : Function) i => { f with id := i }) 1 t.ftab }

/-- `Merge` with its re-merge recursion; `fuel` bounds the recursion depth (every re-merge drops
at least one sample, `Props/C03.merge_terminates`). -/
def mergeFuel : Nat → List Profile → Outcome Profile
  | 0, _ => .panic "model: re-merge recursion out of fuel"
  | fuel + 1, ps =>
    match mergeOnce ps with
    | .ok r => if r.samples.any (fun s => isZeroSample s.values) then mergeFuel fuel [r] else .ok r
    | .err e => .err e
    | .panic s => .panic s

def totalSamples (ps : List Profile) : Nat := (ps.map (·.samples.length)).sum

/-- `profile.Merge` -/
def merge (ps : List Profile) : Outcome Profile := mergeFuel (totalSamples ps + 1) ps

/-- `(*Profile).Compact` (`p, _ = Merge([]*Profile{p})`) -/
def compact (p : Profile) : Outcome Profile := merge [p]

end Merge
end PV
