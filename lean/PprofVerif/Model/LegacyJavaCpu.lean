import PprofVerif.Model.LegacyJava
/-!
# C14 — binary Java CPU profiles: `javaCPUProfile` (legacy_java_profile.go) and `parseCPU`

The binary "profilez" layout of `LegacyCpu` with third header word 1:
header `0 3 1 <period µs> 0`, records `<count> <n> <addr₁> … <addr_n>`, end marker `0 1 0`, then
— as text — the Java location trailer of `LegacyJava`
(` 0x<addr> <function> (<file>:<line>)` …).  Values `[count, count·period·1000]`; addresses are
NOT adjusted (`parseCPUSamples(…, adjust=false)`), no signal-frame or duplicate-leaf removal;
locations named in the trailer get a line and lose their address, every address is cleared at
the end (`Aggregate`), the frame filters are those of CPU profiles.
-/
namespace PV.Legacy
open PV

structure JavaCpuDoc where
  big : Bool
  w64 : Bool
  period : Nat
  recs : List CpuRec
  eod : Bool                    -- end-of-data marker present
  blanksAfter : Nat             -- blank lines between the marker and the trailer (only with `eod`)
  locs : List JavaLoc           -- the trailer (only with `eod`)
  deriving Repr, DecidableEq, Inhabited

def JavaCpuDoc.trailerLines (d : JavaCpuDoc) : List Str :=
  List.replicate d.blanksAfter [] ++ d.locs.flatMap (fun l => printFillers l.fill ++ [l.print])

def printJavaCpu (d : JavaCpuDoc) : Str :=
  words d.big d.w64 ([0, 3, 1, d.period, 0] ++ d.recs.flatMap CpuRec.words ++ (if d.eod then [0, 1, 0] else [])) ++
    (if d.eod then unlines d.trailerLines else [])

/-- the same document with freely chosen line terminators in the trailer (`renderLines`) -/
def printJavaCpuWith (cs : List Bool) (noFinal : Bool) (d : JavaCpuDoc) : Str :=
  words d.big d.w64 ([0, 3, 1, d.period, 0] ++ d.recs.flatMap CpuRec.words ++ (if d.eod then [0, 1, 0] else [])) ++
    (if d.eod then renderLines cs noFinal d.trailerLines else [])

def JavaCpuDoc.wordBound (d : JavaCpuDoc) : Nat := if d.w64 then two64 else two32

def JavaCpuDoc.wf (d : JavaCpuDoc) : Bool :=
  0 < d.period && d.period < d.wordBound &&
  d.recs.all (fun r => r.count < d.wordBound && r.addrs.length < two32 && r.addrs.all (· < d.wordBound) &&
                       !(r.count == 0 && r.addrs == [0])) &&
  (d.eod || (d.blanksAfter == 0 && d.locs.isEmpty)) &&
  d.locs.all (fun l => l.fill.all Filler.wf && l.addr < two64 && l.kind.wf)

/-- values as in the C++ flavour, addresses as they are in the file. -/
def javaCpuSample (period : Nat) (count : Nat) (addrs : List Nat) : RawSample :=
  { addrs := addrs, values := [wrapI64 count, wrapI64 (wrapI64 count * cpuPeriod period)], numLabel := [] }

def javaCpuHeader (period : Nat) : JavaHeader :=
  { sampleType := [vt "samples" "count", vt "cpu" "nanoseconds"], periodType := vt "cpu" "nanoseconds",
    period := cpuPeriod period, durationNanos := 0, heap := false }

/-- `javaAssemble` (location table, trailer lines, catch-all mapping, addresses cleared) with the
frame filters `addLegacyFrameInfo` gives a profile whose sample types are samples/cpu. -/
def javaCpuAssemble (period : Nat) (ss : List RawSample) (infos : List JavaInfo) : Profile :=
  { javaAssemble (javaCpuHeader period) ss infos with dropFrames := cpuProfilerRxStr, keepFrames := [] }

def expectedJavaCpu (d : JavaCpuDoc) : Profile :=
  javaCpuAssemble d.period (d.recs.map (fun r => javaCpuSample d.period r.count r.addrs))
    (if d.eod then d.locs.map JavaLoc.info else [])

/-- `javaCPUProfile`: the sample loop without address adjustment, then `parseJavaLocations` on
the bytes after the end marker (lines are `\n`-terminated, a last unterminated line counts). -/
def javaCpuProfile (big w64 : Bool) (period : Nat) (b : Str) : Outcome Profile :=
  match cpuSamplesLoop big w64 (javaCpuSample period) (b.length + 1) b [] with
  | .err e => .err e
  | .panic e => .panic e
  | .ok (ss, rest) =>
    match javaLocLoop (javaLocLines rest) with
    | .err e => .err e
    | .panic e => .panic e
    | .ok infos => .ok (javaCpuAssemble period ss infos)

/-- `parseCPU` (legacy_profile.go): both flavours. -/
def parseCPU (b : Str) : Outcome Profile := parseCPUWith javaCpuProfile b

end PV.Legacy
