/-
C20 — vocabulary of the REGENERATED lock facts (`Gen/LockFacts.lean`, written on every run by
tools/extract/lockfacts.go from the current pprof source) and the decidable checks that the
per-run obligations in `Props/C20.lean` evaluate over them.  Core Lean only.

A *site* is one syntactic occurrence of a guarded variable in non-test code of profile/,
internal/driver/ or internal/binutils/.  The extractor decides which barrier dominates the
site; this file decides which barriers are acceptable for which kind of guard.
-/
namespace PV.ConcFacts

inductive GuardKind where
  | mutex | once
  deriving DecidableEq, Repr

/-- What orders a site with respect to the other accesses of the same variable. -/
inductive Barrier where
  | lock       -- inside  g.Lock() … g.Unlock()  of the same function, same object
  | deferLock  -- after   g.Lock(); defer g.Unlock()  in the same function, same object
  | confined   -- the function is only reachable from regions holding g (callers in `via`)
  | rlock      -- inside  g.RLock() … g.RUnlock()  (sync.RWMutex read lock): guards READS only
  | deferRLock -- after   g.RLock(); defer g.RUnlock()
  | confinedR  -- only reachable from regions holding g at least for reading
  | onceBody   -- inside (or only reachable from) the function handed to g.Do
  | afterOnce  -- after g.Do(…) in the same function (or only reachable from such places)
  | fresh      -- the object was allocated in this call chain and is not shared yet
  | construct  -- field key of a composite literal (object under construction)
  | pkgInit    -- package-level initialiser (ordered before main by the Go spec)
  | teardown   -- read inside a Close method (exclusive by the io.Closer contract)
  | none       -- nothing recognised
  deriving DecidableEq, Repr

structure GuardSpec where
  varId   : Nat
  var     : String
  guardId : Nat
  guard   : String
  kind    : GuardKind
  deriving Repr

structure Site where
  varId   : Nat
  var     : String
  fn      : String
  file    : String
  line    : Nat
  write   : Bool
  barrier : Barrier
  guardId : Nat
  guard   : String
  via     : List String
  deriving Repr

/-- what orders a goroutine's writes before the spawner reads them -/
inductive Join where
  | waitGroup  -- `defer wg.Done()` in the goroutine, `wg.Wait()` in the spawner
  | chanClose  -- `defer close(done)` in the goroutine, `<-done` in the spawner
  | chanRecv   -- the goroutine sends once on a channel; the spawner receives once per goroutine
  | none
  deriving DecidableEq, Repr

/-- one `go` statement -/
structure GoSite where
  fn            : String
  file          : String
  line          : Nat
  callee        : String
  join          : Join
  joinLine      : Nat          -- line of the join in the spawning function (0 = none)
  sharedWrites  : List String  -- variables of the spawning function assigned by the goroutine
  touchedBefore : Bool         -- one of them (or another goroutine's slot) is used by the spawner or
                               -- a sibling before the join is complete
  slotParam     : Bool         -- it writes through a parameter bound to `&xs[i]`, i the loop index
  deriving Repr

structure TempFileFacts where
  flags          : Nat   -- constant value of the flag argument of os.OpenFile in newTempFile
  oExcl          : Nat
  oCreate        : Nat
  oTrunc         : Nat
  retriesOnExist : Bool  -- the loop tests os.IsExist and tries the next index
  deriving Repr

/-- the barrier means "the read lock of the variable's RWMutex is held" (other readers may hold it
too, writers may not) -/
def Barrier.holdsReadLock : Barrier → Bool
  | .rlock | .deferRLock | .confinedR => true
  | _ => false

/-- the barrier means "the guard of the variable is held exclusively / the once has completed" -/
def Barrier.holdsGuard : GuardKind → Barrier → Bool
  | .mutex, .lock | .mutex, .deferLock | .mutex, .confined => true
  | .once, .onceBody | .once, .afterOnce => true
  | _, _ => false

/-- the barrier means "no other goroutine can reach the object" -/
def Barrier.threadLocal : Barrier → Bool
  | .fresh | .construct | .pkgInit => true
  | _ => false

/-- Is this access ordered with every conflicting access of the same variable?
* mutex-guarded variable: the mutex is held, or the object is thread-local; with a
  `sync.RWMutex` a READ may also hold only the read lock — a WRITE under a read lock is rejected;
* once-guarded variable: writes only inside the once body (or thread-local), reads inside the
  body or after `Do` returned;
* a read in a `Close` method is accepted (teardown). -/
def siteOk (g : GuardSpec) (s : Site) : Bool :=
  s.guardId == g.guardId &&
  (s.barrier.threadLocal ||
   (match g.kind, s.barrier with
    | .mutex, b => b.holdsGuard .mutex || (b.holdsReadLock && !s.write)
    | .once, .onceBody => true
    | .once, .afterOnce => !s.write
    | _, _ => false) ||
   (s.barrier == .teardown && !s.write))

def lookup (gs : List GuardSpec) (v : Nat) : Option GuardSpec := gs.find? (·.varId == v)

/-- every site is acceptable for the guard of its variable -/
def allSitesOk (gs : List GuardSpec) (ss : List Site) : Bool :=
  ss.all fun s => match lookup gs s.varId with
    | some g => siteOk g s
    | none => false

/-- every guarded variable is actually used under its guard (the table is not vacuous) -/
def allGuardsUsed (gs : List GuardSpec) (ss : List Site) : Bool :=
  gs.all fun g => ss.any fun s => s.varId == g.varId && (s.barrier.holdsGuard g.kind || s.barrier.holdsReadLock)

/-- writes to copy-on-write structs happen only while the struct is fresh -/
def immutableOk (ss : List Site) : Bool := ss.all fun s => s.barrier.threadLocal

/-- a goroutine is either joined (WaitGroup, closed channel, or one receive per goroutine) before
anything it writes is read, its writes being disjoint from everything the spawner and its
siblings touch before the join, or it is one of the known detached helpers that share no
unguarded state (`go openBrowser(url, o)`). -/
def goOk (g : GoSite) : Bool :=
  (g.join != .none && g.joinLine > g.line && !g.touchedBefore) ||
  (g.callee == "openBrowser" && g.fn == "serveWebInterface")

/-- every nesting edge (outer, inner) goes from a lower to a strictly higher rank: the nesting
relation is acyclic and `rank` is a lock hierarchy -/
def lockOrderOk (rank : List (Nat × String × Nat)) (edges : List (Nat × Nat)) : Bool :=
  edges.all fun e =>
    match rank.find? (·.1 == e.1), rank.find? (·.1 == e.2) with
    | some a, some b => a.2.2 < b.2.2
    | _, _ => false

/-- no function returns (or jumps out) between `Lock` and `Unlock` with the mutex still held -/
def noLeak (loose : List (String × String × String × String × String)) : Bool :=
  loose.all fun l => l.2.2.1 != "leak"

/-- Entry points whose unguarded accesses to the process-wide state happen at start-up, before the
invocation starts any goroutine and before a handler can run (assumption listed in checks/C20.json:
one `driver.PProf` invocation at a time performs start-up, concurrent invocations use identical
flags; `AddCommand` is an extension hook to be called before `PProf`). -/
def startupFns : List String := ["parseFlags", "interactive", "serveWebInterface", "AddCommand"]

/-- no lost-update shape (value of a guarded variable read in one critical section, a value
computed from it written back in another) outside start-up -/
def noSplitRmw (l : List (String × String × String × String)) : Bool :=
  l.all fun x => startupFns.contains x.1

/-- every rename (which replaces its destination) is serialised by a mutex or is an exclusive
link: a name reserved with O_EXCL protects only ITSELF, not the name the file is renamed to -/
def renamesOk (l : List (String × String × String × String)) : Bool :=
  l.all fun x => x.2.2.2 != ""

/-- every assignment to a package-level variable inside a function is covered by a barrier (a
mutex held, a `sync.Once` body, `init`) — in particular no lazily initialised global without a
barrier — or is a start-up write -/
def globalsOk (l : List (String × String × String × Barrier)) : Bool :=
  l.all fun x => x.2.2.2 != .none || startupFns.contains x.2.1

def tempExcl (t : TempFileFacts) : Bool :=
  t.oExcl != 0 && t.oCreate != 0 &&
  t.flags &&& t.oExcl == t.oExcl && t.flags &&& t.oCreate == t.oCreate && t.retriesOnExist

end PV.ConcFacts
