import PprofVerif.Model.LegacyBase
/-!
# C14 — memory-map sections and the final assembly of a legacy profile

* document model, printer and documented meaning of a trailing memory map (`/proc/<pid>/maps`
  lines and the brief `start-end[:] [perm] [file] [(@offset)] [buildid]` lines);
* the variation `parseProcMapsFromScanner` tolerates around the entries: a glog prefix
  (`… file.cc:123] `) on a line (`removeLoggingInfo`), attribute lines `name=value` and `$name`
  references in later lines (`strings.NewReplacer`);
* `parseMappingEntry` / `parseProcMapsFromScanner` for that grammar;
* `massageMappings`, `remapLocationIDs`, `remapMappingIDs` (profile.go / legacy_profile.go) on
  the id-based profile model, and `finish`, which turns raw samples (final addresses, values,
  labels) plus the parsed mappings into the `Profile` that `ParseData` returns.
`finish` is used both by the documented `expectedX` and by the Lean parsers; what it computes is
tied to the Go code by the correspondence check only.
-/
namespace PV.Legacy
open PV

/-! ### documents -/
inductive Perm where
  | rxp | rp | rwp | rwxp | nonep | xp
  deriving Repr, DecidableEq, Inhabited

def Perm.print : Perm → Str
  | .rxp => asc "r-xp" | .rp => asc "r--p" | .rwp => asc "rw-p" | .rwxp => asc "rwxp"
  | .nonep => asc "---p" | .xp => asc "--xp"

def Perm.exec : Perm → Bool
  | .rxp => true | .rwxp => true | .xp => true | _ => false

inductive MapForm where
  /-- `/proc/<pid>/maps`: `perm offset dev:dev inode [file]` -/
  | proc (perm : Perm) (offset : Nat) (devMaj devMin : Nat) (inode : Nat) (file : Option Str)
  /-- brief: `[:] [perm] [file [(@offset)] [buildid]]` -/
  | brief (colon : Bool) (perm : Option Perm) (file : Option Str) (offset : Option Nat) (buildID : Option Str)
  deriving Repr, DecidableEq, Inhabited

structure MapEntry where
  indent : Nat
  ox : Bool        -- `0x` in front of start and end
  width : Nat      -- zero-padding of start and end
  start : Nat
  limit : Nat
  gap : Nat        -- extra spaces between the fields (≥ 1 is always printed)
  form : MapForm
  deriving Repr, DecidableEq, Inhabited

def sp (n : Nat) : Str := List.replicate n 32

def optField (gap : Nat) : Option Str → Str
  | none => []
  | some s => sp (gap + 1) ++ s

def MapEntry.print (e : MapEntry) : Str :=
  let pre : Str := if e.ox then asc "0x" else []
  let range := sp e.indent ++ pre ++ hexPad e.width e.start ++ [45] ++ pre ++ hexPad e.width e.limit
  match e.form with
  | .proc perm off dmaj dmin inode file =>
    range ++ sp (e.gap + 1) ++ perm.print ++ sp (e.gap + 1) ++ hexPad 8 off ++ sp (e.gap + 1) ++
      hexPad 2 dmaj ++ [58] ++ hexPad 2 dmin ++ sp (e.gap + 1) ++ dec inode ++ optField e.gap file
  | .brief colon perm file off bid =>
    range ++ (if colon then [58] else []) ++ optField e.gap (perm.map Perm.print) ++ optField e.gap file ++
      optField e.gap (off.map fun o => asc "(@" ++ hex o ++ asc ")") ++ optField e.gap bid

/-- file names the printer may emit: non-empty, printable, no blanks, first byte `/` or `[`
(so that they are not mistaken for a permission or hex field), no `$`. -/
def fileOK (f : Str) : Bool :=
  (match f with | b :: _ => b.toNat == 47 || b.toNat == 91 | [] => false) &&
  f.all (fun b => isPrint b && b.toNat != 32 && b.toNat != 36)

def buildIDOK (s : Str) : Bool := s != [] && s.all isXDigit

def MapEntry.wf (e : MapEntry) : Bool :=
  e.start < two64 && e.limit < two64 &&
  (match e.form with
   | .proc _ off dmaj dmin _ file => off < two64 && dmaj < 256 && dmin < 256 && (file.all fileOK)
   | .brief _ _ file off bid =>
     file.all fileOK && bid.all buildIDOK && off.all (· < two64) &&
     (file.isSome || (off.isNone && bid.isNone)))

/-- the mapping an entry stands for; non-executable entries are skipped. -/
def MapEntry.mapping (e : MapEntry) : Option Mapping :=
  let mk (off : Nat) (file bid : Str) : Mapping :=
    { id := 0, start := e.start, limit := e.limit, offset := off, file := file, buildID := bid,
      hasFunctions := false, hasFilenames := false, hasLineNumbers := false, hasInlineFrames := false }
  match e.form with
  | .proc perm off _ _ _ file => if perm.exec then some (mk off (file.getD []) []) else none
  | .brief _ perm file off bid =>
    if perm.all Perm.exec then some (mk (off.getD 0) (file.getD []) (bid.getD [])) else none

/-! ### lines of a section: entries, `$name` references, attribute lines, glog prefixes -/
/-- a glog prefix `<text>:<line>] ` (e.g. `W1220 15:07:15.201776    8272 logger.cc:12036] `) -/
structure LogPrefix where
  text : Str
  line : Nat
  deriving Repr, DecidableEq, Inhabited

def LogPrefix.print (p : LogPrefix) : Str := p.text ++ 58 :: (dec p.line ++ [93, 32])

def isBracket (b : UInt8) : Bool := b.toNat == 91 || b.toNat == 93

def LogPrefix.wf (p : LogPrefix) : Bool := p.text != [] && p.text.all (fun b => isPrint b && !isBracket b)

def optLog : Option LogPrefix → Str
  | none => []
  | some p => p.print

def MapForm.setFile (f : Str) : MapForm → MapForm
  | .proc perm off dmaj dmin inode _ => .proc perm off dmaj dmin inode (some f)
  | .brief colon perm _ off bid => .brief colon perm (some f) off bid

/-- the entry with its file field replaced -/
def MapEntry.withFile (e : MapEntry) (f : Str) : MapEntry := { e with form := e.form.setFile f }

inductive MapLine where
  /-- a plain entry -/
  | entry (log : Option LogPrefix) (e : MapEntry)
  /-- an entry whose file field is written `$<name><suffix>` (`e`'s own file field is not used) -/
  | entryRef (log : Option LogPrefix) (e : MapEntry) (name suffix : Str)
  /-- `<name>=<value>` / `<name> = <value>`: later `$<name>` stand for `<value>` -/
  | attr (log : Option LogPrefix) (indent : Nat) (name : Str) (spaced : Bool) (value : Str)
  deriving Repr, DecidableEq, Inhabited

def MapLine.print : MapLine → Str
  | .entry log e => optLog log ++ e.print
  | .entryRef log e name suffix => optLog log ++ (e.withFile (36 :: (name ++ suffix))).print
  | .attr log indent name spaced value =>
    optLog log ++ (sp indent ++ (name ++ ((if spaced then asc " = " else asc "=") ++ value)))

/-- the attributes assigned so far, in order: name ↦ value -/
abbrev MapEnv := List (Str × Str)

def MapEnv.lookup (env : MapEnv) (name : Str) : Option Str := (env.find? (fun p => p.1 == name)).map (·.2)

/-- attribute names: `\w+` not starting with a hex digit (a line starting with two hex digits
reads as an address range) -/
def attrNameOK (n : Str) : Bool :=
  n.all isWord && (match n with | b :: _ => !isXDigit b | [] => false)

/-- attribute values: printable, no blanks, no `$` -/
def attrValueOK (v : Str) : Bool := v != [] && v.all (fun b => isPrint b && b.toNat != 32 && b.toNat != 36)

/-- the first bracket of the text, if any, is `[` — so the text cannot complete a glog prefix
`…:<digits>] ` -/
def firstBracketOK (s : Str) : Bool :=
  match s.dropWhile (fun b => !isBracket b) with
  | b :: _ => b.toNat == 91
  | [] => true

/-- what follows `$<name>`: nothing, or text starting with a byte that cannot continue a name -/
def suffixOK (s : Str) : Bool := match s with | b :: _ => !isWord b | [] => true

def MapForm.file : MapForm → Option Str
  | .proc _ _ _ _ _ file => file
  | .brief _ _ file _ _ => file

def MapLine.wfIn (env : MapEnv) : MapLine → Bool
  | .entry log e => log.all LogPrefix.wf && e.wf && e.form.file.all firstBracketOK
  | .entryRef log e name suffix =>
    log.all LogPrefix.wf && attrNameOK name && suffixOK suffix && firstBracketOK suffix &&
    (match env.lookup name with
     | some v => (e.withFile (v ++ suffix)).wf
     | none => false)
  | .attr log _ name _ value =>
    log.all LogPrefix.wf && attrNameOK name && attrValueOK value && firstBracketOK value &&
    env.all (fun p => !(p.1.isPrefixOf name) && !(name.isPrefixOf p.1))

/-- documented meaning of one line: the environment after it and the mapping it stands for.
A `$name` stands for the value assigned to `name` earlier in the section. -/
def MapLine.step (env : MapEnv) : MapLine → MapEnv × Option Mapping
  | .entry _ e => (env, e.mapping)
  | .entryRef _ e name suffix =>
    (env, match env.lookup name with
          | some v => (e.withFile (v ++ suffix)).mapping
          | none => (e.withFile (36 :: (name ++ suffix))).mapping)
  | .attr _ _ name _ value => (env ++ [(name, value)], none)

/-- a memory-map section: lines (each preceded by filler lines), trailing fillers. -/
structure MapSection where
  entries : List (List Filler × MapLine)
  post : List Filler
  deriving Repr, DecidableEq, Inhabited

def wfLines : MapEnv → List (List Filler × MapLine) → Bool
  | _, [] => true
  | env, p :: r => p.1.all Filler.wf && p.2.wfIn env && wfLines (p.2.step env).1 r

def MapSection.wf (m : MapSection) : Bool := wfLines [] m.entries && m.post.all Filler.wf

def MapSection.bodyLines (m : MapSection) : List Str :=
  m.entries.flatMap (fun p => printFillers p.1 ++ [p.2.print]) ++ printFillers m.post

def mappingsOf : MapEnv → List (List Filler × MapLine) → List Mapping
  | _, [] => []
  | env, p :: r =>
    match (p.2.step env).2 with
    | some m => m :: mappingsOf (p.2.step env).1 r
    | none => mappingsOf (p.2.step env).1 r

def MapSection.mappings (m : MapSection) : List Mapping := mappingsOf [] m.entries

def sentinelMemoryMap : Str := asc "--- Memory map: ---"
def sentinelMappedLibraries : Str := asc "MAPPED_LIBRARIES:"

/-- `isMemoryMapSentinel` -/
def isMemoryMapSentinel (line : Str) : Bool :=
  containsSub sentinelMemoryMap line || containsSub sentinelMappedLibraries line

/-- lines of an optional trailing section introduced by `sentinel`. -/
def tailLines (sentinel : Str) : Option MapSection → List Str
  | none => []
  | some m => sentinel :: m.bodyLines

def tailMappings : Option MapSection → List Mapping
  | none => []
  | some m => m.mappings

/-! ### `parseMappingEntry` for the printed grammar -/
/-- `\s*(?:0x)?([[:xdigit:]]+)[\s-]?\s*(?:0x)?([[:xdigit:]]+):?` -/
def matchHexRange (l : Str) : Option (Str × Str × Str) :=
  let s := skipReSpace l
  let s := (stripPrefix (asc "0x") s).getD s
  let a := s.takeWhile isXDigit
  let s := s.dropWhile isXDigit
  if a.isEmpty then none else
  let s := match s with
    | b :: r => if isReSpace b || b.toNat == 45 then r else b :: r
    | [] => []
  let s := skipReSpace s
  let s := (stripPrefix (asc "0x") s).getD s
  let b := s.takeWhile isXDigit
  let s := s.dropWhile isXDigit
  if b.isEmpty then none else
  let s := (stripPrefix [58] s).getD s
  some (a, b, s)

/-- `(?:\s+(<class>+))?` — returns the capture (empty if absent) and the rest. -/
def optSpaceField (p : UInt8 → Bool) (s : Str) : Str × Str :=
  let t := skipReSpace s
  if t.length == s.length then ([], s) else
  let f := t.takeWhile p
  if f.isEmpty then ([], s) else (f, t.dropWhile p)

def isPermByte (b : UInt8) : Bool :=
  b.toNat == 45 || b.toNat == 114 || b.toNat == 119 || b.toNat == 120 || b.toNat == 112

/-- `\s+<class>+` mandatory -/
def reqSpaceField (p : UInt8 → Bool) (s : Str) : Option (Str × Str) :=
  let (f, r) := optSpaceField p s
  if f.isEmpty then none else some (f, r)

/-- procMapsRE after the range: `perm? hex? \s+hex:hex \s+digits (\s+\S+)?`.  The optional
hex field is the offset; the matcher resolves the regexp's ambiguity the way the printed lines
need it (offset present). Returns perm, offset, file. -/
def matchProcRest (s : Str) : Option (Str × Str × Str) := do
  let (perm, s) := optSpaceField isPermByte s
  let (off, s1) := optSpaceField isXDigit s
  -- `off` may have swallowed the device major when no offset is printed; printed lines always
  -- carry an offset, so the device pair must follow
  let (_maj, s2) ← reqSpaceField isXDigit s1
  let s3 ← stripPrefix [58] s2
  let mn := s3.takeWhile isXDigit
  if mn.isEmpty then none else
  let (_ino, s4) ← reqSpaceField isDigit (s3.dropWhile isXDigit)
  let (file, _) := optSpaceField (fun b => !isReSpace b) s4
  pure (perm, off, file)

/-- `(?:\s+\(@([[:xdigit:]]+)\))?` — the capture (empty if absent) and the rest -/
def optAtOffset (s : Str) : Str × Str :=
  let t := skipReSpace s
  if t.length == s.length then ([], s) else
  match stripPrefix (asc "(@") t with
  | none => ([], s)
  | some u =>
    let o := u.takeWhile isXDigit
    match stripPrefix (asc ")") (u.dropWhile isXDigit) with
    | none => ([], s)
    | some v => if o.isEmpty then ([], s) else (o, v)

/-- briefMapsRE after the range: `perm? (\s+\S+)? (\s+\(@hex\))? (\s+hex)?` -/
def matchBriefRest (s : Str) : Str × Str × Str × Str :=
  let (perm, s) := optSpaceField isPermByte s
  let (file, s) := optSpaceField (fun b => !isReSpace b) s
  let (off, s) := optAtOffset s
  let (bid, _) := optSpaceField isXDigit s
  (perm, file, off, bid)

/-- result of `parseMappingEntry`: a mapping, "skip" (`nil, nil`), or `errUnrecognized`. -/
inductive EntryResult where
  | mapping (m : Mapping)
  | skip
  | unrecognized
  deriving Repr, DecidableEq

def mkMapping (start limit off : Nat) (file bid : Str) : Mapping :=
  { id := 0, start := start, limit := limit, offset := off, file := file, buildID := bid,
    hasFunctions := false, hasFilenames := false, hasLineNumbers := false, hasInlineFrames := false }

def parseMappingEntry (l : Str) : EntryResult :=
  match matchHexRange l with
  | none => .unrecognized
  | some (a, b, rest) =>
    let (perm, file, off, bid) :=
      match matchProcRest rest with
      | some (perm, off, file) => (perm, file, off, ([] : Str))
      | none => matchBriefRest rest
    if perm ≠ [] ∧ !(perm.contains 120) then .skip else
    match parseU64Hex a, parseU64Hex b with
    | some st, some en =>
      if off.isEmpty then .mapping (mkMapping st en 0 file bid) else
      match parseU64Hex off with
      | some o => .mapping (mkMapping st en o file bid)
      | none => .unrecognized
    | _, _ => .unrecognized

/-- `removeLoggingInfo`: logInfoRE `^[^\[\]]+:[0-9]+]\s` — the text before the first bracket must
be `<one or more bytes>:<digits>`, the bracket a `]`, followed by a blank; the match is cut off. -/
def removeLoggingInfo (line : Str) : Str :=
  let pre := line.takeWhile (fun b => !isBracket b)
  match line.dropWhile (fun b => !isBracket b) with
  | c :: w :: tail =>
    if c.toNat == 93 && isReSpace w then
      match pre.reverse.dropWhile isDigit with
      | k :: _ :: _ => if k.toNat == 58 && !(pre.reverse.takeWhile isDigit).isEmpty then tail else line
      | _ => line
    else line
  | _ => line

/-- `strings.SplitN(line, "=", 2)` when there is a `=` -/
def splitEq : Str → Option (Str × Str)
  | [] => none
  | b :: s => if b.toNat == 61 then some ([], s) else (splitEq s).map (fun (k, v) => (b :: k, v))

/-- the first pair, in argument order, whose key is a prefix of `s`: key length and value
(`strings.Replacer`: "comparisons are done in argument order"; of two equal keys the first wins). -/
def replaceFirst : List (Str × Str) → Str → Option (Nat × Str)
  | [], _ => none
  | (k, v) :: ps, s =>
    match stripPrefix k s with
    | some _ => some (k.length, v)
    | none => replaceFirst ps s

/-- `strings.NewReplacer(pairs…).Replace(s)` for non-empty keys: left to right, no overlaps;
`skip` bytes still belong to the key matched last. -/
def replaceAllAux (ps : List (Str × Str)) : Nat → Str → Str
  | _, [] => []
  | n+1, _ :: s => replaceAllAux ps n s
  | 0, b :: s =>
    match replaceFirst ps (b :: s) with
    | some (klen, v) => v ++ replaceAllAux ps (klen - 1) s
    | none => b :: replaceAllAux ps 0 s

def replaceAll (ps : List (Str × Str)) (s : Str) : Str := replaceAllAux ps 0 s

/-- `parseProcMapsFromScanner`: every remaining line, after `removeLoggingInfo` and the `$attr`
replacements collected so far; a line that is not a mapping but contains `=` defines an
attribute; other unrecognised lines are ignored. -/
def parseProcMapsGo : List (Str × Str) → List Str → List Mapping
  | _, [] => []
  | ps, l :: r =>
    let line := replaceAll ps (removeLoggingInfo l)
    match parseMappingEntry line with
    | .mapping m => m :: parseProcMapsGo ps r
    | .skip => parseProcMapsGo ps r
    | .unrecognized =>
      match splitEq line with
      | some (k, v) => parseProcMapsGo (ps ++ [(36 :: trimSpace k, trimSpace v)]) r
      | none => parseProcMapsGo ps r

def parseProcMaps (ls : List Str) : List Mapping := parseProcMapsGo [] ls

/-- `parseAdditionalSections`: skip to the sentinel (the current line counts), then read the map. -/
def skipToSentinel : List Str → List Str
  | [] => []
  | l :: r => if isMemoryMapSentinel l then r else skipToSentinel r

def parseAdditionalSections (cur : Str) (rest : List Str) : List Mapping :=
  if isMemoryMapSentinel cur then parseProcMaps rest else parseProcMaps (skipToSentinel rest)

/-! ### `massageMappings` -/
def sub64 (a b : Nat) : Nat := (a + two64 - b % two64) % two64

def adjacent (m1 m2 : Mapping) : Bool :=
  !(m1.file != [] && m2.file != [] && m1.file != m2.file) &&
  !(m1.buildID != [] && m2.buildID != [] && m1.buildID != m2.buildID) &&
  m1.limit == m2.start &&
  !(m1.offset != 0 && m2.offset != 0 && (m1.offset + sub64 m1.limit m1.start) % two64 != m2.offset)

/-- merge adjacent regions; `acc` is the result so far, last element first. -/
def mergeAdjacent : List Mapping → List Mapping → List Mapping
  | acc, [] => acc.reverse
  | [], m :: r => mergeAdjacent [m] r
  | lm :: acc, m :: r =>
    if adjacent lm m then
      mergeAdjacent ({ lm with limit := m.limit,
                               file := if m.file != [] then m.file else lm.file,
                               buildID := if m.buildID != [] then m.buildID else lm.buildID } :: acc) r
    else mergeAdjacent (m :: lm :: acc) r

/-- `strings.Replace(s, old, "", -1)`; fuel = length. -/
def removeAllAux (old : Str) : Nat → Str → Str
  | 0, s => s
  | _, [] => []
  | f+1, b :: s =>
    match stripPrefix old (b :: s) with
    | some r => if old.isEmpty then b :: removeAllAux old f s else removeAllAux old f r
    | none => b :: removeAllAux old f s
def removeAll (old s : Str) : Str := removeAllAux old (s.length + 1) s

/-- libRx `([.]so$|[.]so[._][0-9]+)` -/
def isLibAux : Str → Bool
  | [] => false
  | b :: s =>
    (match stripPrefix (asc ".so") (b :: s) with
     | some [] => true
     | some (c :: d :: _) => (c.toNat == 46 || c.toNat == 95) && isDigit d
     | _ => false) || isLibAux s
def isLib (f : Str) : Bool := isLibAux f

def isMainCandidate (m : Mapping) : Bool :=
  let file := trimSpace (removeAll (asc "(deleted)") m.file)
  match file with
  | [] => false
  | b :: _ => !isLib file && b.toNat != 91

def swapToFront (ms : List Mapping) : List Mapping :=
  match ms.findIdx? isMainCandidate with
  | none => ms
  | some i =>
    match ms[i]?, ms.head? with
    | some mi, some m0 => (ms.set i m0).set 0 mi
    | _, _ => ms

def renumber (ms : List Mapping) : List Mapping :=
  ms.zipIdx.map (fun (m, i) => { m with id := i + 1 })

def massageMappings (ms : List Mapping) : List Mapping :=
  let ms := if ms.length > 1 then mergeAdjacent [] ms else ms
  renumber (swapToFront ms)

/-! ### `remapMappingIDs` -/
def fakeMapping : Mapping := mkMapping 0 (two64 - 1) 0 [] []

/-- the heuristics applied before locations are associated. -/
def preRemap (ms : List Mapping) : List Mapping :=
  let ms := match ms with
    | m0 :: m1 :: r => if hasPrefix (asc "/anon_hugepage") m0.file && m0.limit == m1.start then m1 :: r else ms
    | _ => ms
  match ms with
  | m0 :: r => if sub64 m0.start m0.offset == 0x400000 then { m0 with start := 0x400000, offset := 0 } :: r else ms
  | [] => ms

/-- associate one address; returns the mapping list (possibly with a mapping extended downwards
or the fake mapping appended), whether the fake mapping exists, and the index+1 of the mapping
(0 = none, for address 0). -/
def assignOne (ms : List Mapping) (fake : Option Nat) (a : Nat) : List Mapping × Option Nat × Nat :=
  if a == 0 then (ms, fake, 0) else
  match ms.findIdx? (fun m => m.start ≤ a && a < m.limit) with
  | some i => (ms, fake, i + 1)
  | none =>
    match ms.findIdx? (fun m => m.offset != 0 && sub64 m.start m.offset ≤ a && a < m.start) with
    | some i =>
      (ms.modify i (fun m => { m with start := sub64 m.start m.offset, offset := 0 }), fake, i + 1)
    | none =>
      match fake with
      | some i => (ms, fake, i + 1)
      | none => (ms ++ [fakeMapping], some ms.length, ms.length + 1)

def assignAll : List Mapping → Option Nat → List Nat → List Mapping × List Nat
  | ms, _, [] => (ms, [])
  | ms, fake, a :: r =>
    let (ms1, fake1, i) := assignOne ms fake a
    let (ms2, is) := assignAll ms1 fake1 r
    (ms2, i :: is)

/-- `remapMappingIDs` for locations (given by their addresses) none of which has a mapping yet. -/
def remapMappingIDs (ms : List Mapping) (addrs : List Nat) : List Mapping × List Nat :=
  let (ms, is) := assignAll (preRemap ms) none addrs
  (renumber ms, is)

/-! ### `remapLocationIDs` and assembly -/
def dedupAux (seen : List Nat) : List Nat → List Nat
  | [] => []
  | a :: r => if seen.contains a then dedupAux seen r else a :: dedupAux (a :: seen) r

/-- distinct elements in order of first occurrence. -/
def dedup (l : List Nat) : List Nat := dedupAux [] l

/-- a sample before assembly: final location addresses (leaf first), values, numeric labels. -/
structure RawSample where
  addrs : List Nat
  values : List Int
  numLabel : List (Str × List Int)
  deriving Repr, DecidableEq, Inhabited

structure Header where
  sampleType : List ValueType
  periodType : Option ValueType
  period : Int
  durationNanos : Int
  dropFrames : Str
  keepFrames : Str
  deriving Repr, DecidableEq, Inhabited

def idOf (order : List Nat) (a : Nat) : Nat := order.idxOf a + 1

/-- Assemble the profile `ParseData` returns.  `tableFrom` are the samples as they were when the
memory map was read (their addresses, in order of first use, form the location table);
`final` are the samples as returned (binary CPU profiles and threadz remove a duplicated leaf
after the table was built). Locations are identified by address, as in the Go parsers. -/
def finish (h : Header) (tableFrom final : List RawSample) (parsed : List Mapping) : Profile :=
  let order := dedup (tableFrom.flatMap (·.addrs))
  let (ms, mapIdx) := remapMappingIDs (massageMappings parsed) order
  { sampleType := h.sampleType, defaultSampleType := [],
    samples := final.map (fun s => { locationIDs := s.addrs.map (idOf order), values := s.values,
                                      label := [], numLabel := s.numLabel, numUnit := [] }),
    mappings := ms,
    locations := (order.zip mapIdx).zipIdx.map (fun ((a, mi), i) =>
      { id := i + 1, mappingID := mi, address := a, lines := [], isFolded := false }),
    functions := [], comments := [], docURL := [], dropFrames := h.dropFrames, keepFrames := h.keepFrames,
    timeNanos := 0, durationNanos := h.durationNanos, periodType := h.periodType, period := h.period }

/-! ### `addLegacyFrameInfo` constants (observable as DropFrames/KeepFrames; compared on every case) -/
def allocRxStr : Str := asc "calloc|cfree|malloc|free|memalign|do_memalign|(__)?posix_memalign|pvalloc|valloc|realloc|tcmalloc::.*|tc_calloc|tc_cfree|tc_malloc|tc_free|tc_memalign|tc_posix_memalign|tc_pvalloc|tc_valloc|tc_realloc|tc_new|tc_delete|tc_newarray|tc_deletearray|tc_new_nothrow|tc_newarray_nothrow|malloc_zone_malloc|malloc_zone_calloc|malloc_zone_valloc|malloc_zone_realloc|malloc_zone_memalign|malloc_zone_free|runtime\\..*|BaseArena::.*|(::)?do_malloc_no_errno|(::)?do_malloc_pages|(::)?do_malloc|DoSampledAllocation|MallocedMemBlock::MallocedMemBlock|_M_allocate|__builtin_(vec_)?delete|__builtin_(vec_)?new|__gnu_cxx::new_allocator::allocate|__libc_malloc|__malloc_alloc_template::allocate|allocate|cpp_alloc|operator new(\\[\\])?|simple_alloc::allocate"
def allocSkipRxStr : Str := asc "runtime\\.panic|runtime\\.reflectcall|runtime\\.call[0-9]*"
def cpuProfilerRxStr : Str := asc "ProfileData::Add|ProfileData::prof_handler|CpuProfiler::prof_handler|__pthread_sighandler|__restore"
def lockRxStr : Str := asc "RecordLockProfileData|(base::)?RecordLockProfileData.*|(base::)?SubmitMutexProfileData.*|(base::)?SubmitSpinLockProfileData.*|(base::Mutex::)?AwaitCommon.*|(base::Mutex::)?Unlock.*|(base::Mutex::)?UnlockSlow.*|(base::Mutex::)?ReaderUnlock.*|(base::MutexLock::)?~MutexLock.*|(Mutex::)?AwaitCommon.*|(Mutex::)?Unlock.*|(Mutex::)?UnlockSlow.*|(Mutex::)?ReaderUnlock.*|(MutexLock::)?~MutexLock.*|(SpinLock::)?Unlock.*|(SpinLock::)?SlowUnlock.*|(SpinLockHolder::)?~SpinLockHolder.*"

def vt (t u : String) : ValueType := { typ := asc t, unit := asc u }

end PV.Legacy
