import PprofVerif.Model.Measure
import PprofVerif.Spec.Units
/-!
# Decidable facts about a unit table, and derived forms used in the C15 statements

Boolean checkers (`…B`) that the kernel re-evaluates on the regenerated table on every run
(`decide` in Props/C15.lean), and two derived forms of the model (`firstFamily`, `convertFrom`)
in which the theorems are stated.  Core Lean only.
-/
namespace PV.Measure
open PV

/-! ## derived forms -/

/-- the first family of the table that recognises `s`, with the unit it denotes there — the
family `Scale`'s loop over `UnitTypes` stops at -/
def firstFamily (T : Table) (s : Str) : Option (Family × MUnit) :=
  T.findSome? fun F => (sniffUnit F s).map fun u => (F, u)

/-- `convertUnit` once the source unit `fu` is known -/
def convertFrom (F : Family) (fu : MUnit) (v : Int) (to : Str) : Q × Str :=
  let m := (Q.ofInt v).mul fu.factor
  if isAuto to then
    match autoScale F m with
    | some r => r
    | none => (m.div F.default.factor, F.default.name)
  else
    match sniffUnit F to with
    | none => (m.div F.default.factor, F.default.name)
    | some tu => (m.div tu.factor, tu.name)

/-- what `Scale` returns for a source unit no family knows -/
def passthrough (v : Int) (to : Str) : Q × Str := (Q.ofInt v, if skipUnits.contains to then [] else to)

/-- physical size of a unit string in reference units of its family (1 for unknown units) -/
def phys (T : Table) (s : Str) : Q :=
  match firstFamily T s with
  | some (_, u) => u.factor
  | none => Q.one

/-- upper-casing of ASCII letters -/
def asciiUpper (s : Str) : Str := s.map fun b => if 97 ≤ b ∧ b ≤ 122 then b - 32 else b

/-- a unit whose factor is a positive rational -/
def PosU (u : MUnit) : Prop := 0 < u.fnum ∧ 0 < u.fden

/-- unit `u` keeps the magnitude `|m|` (in reference units) at or above one: `1 ≤ |m| / f_u` -/
def Qual (m : Q) (u : MUnit) : Prop := Q.le Q.one (m.abs.div u.factor)


/-! ## notions used in the statements about `CommonValueType` / `ScaleProfiles` -/

/-- at most one family of the table recognises a given string -/
def UniqueFamily (T : Table) : Prop :=
  ∀ s F G u w, F ∈ T → G ∈ T → sniffUnit F s = some u → sniffUnit G s = some w → F = G

/-- two unit strings that `compatibleValueTypes` accepts: the same string, or two units of one family -/
def CompatU (T : Table) (a b : Str) : Prop :=
  a = b ∨ ∃ F ∈ T, (∃ u, sniffUnit F a = some u) ∧ (∃ w, sniffUnit F b = some w)

namespace Q
def add (a b : Q) : Q := ⟨a.num * b.den + b.num * a.den, a.den * b.den⟩
def sum : List Q → Q
  | [] => zero
  | x :: xs => add x (sum xs)
end Q

/-- total of column `i` of a sample matrix -/
def colTotal (rows : List (List Int)) (i : Nat) : Int := (rows.filterMap (·[i]?)).sum
def colTotalQ (rows : List (List Q)) (i : Nat) : Q := Q.sum (rows.filterMap (·[i]?))

/-- what `ScaleProfiles` does to one profile `p`, giving `o`: the sample types keep their Type,
every ratio is a proper rational whose product with the physical size of the new unit is the
physical size of the old unit, every value is multiplied by the ratio of its column, and the
period is converted likewise -/
def Harmonised (T : Table) (p : MProf) (o : MProfOut) : Prop :=
  o.sampleTypes.length = p.sampleTypes.length ∧ o.ratios.length = p.sampleTypes.length ∧
  (∀ i (_ : i < p.sampleTypes.length) (_ : i < o.sampleTypes.length) (_ : i < o.ratios.length),
    o.sampleTypes[i].typ = p.sampleTypes[i].typ ∧ 0 < o.ratios[i].den ∧
    Q.eqv (o.ratios[i].mul (phys T o.sampleTypes[i].unit)) (phys T p.sampleTypes[i].unit)) ∧
  o.samples = p.samples.map (fun s => List.zipWith (fun v r => (Q.ofInt v).mul r) s o.ratios) ∧
  (match p.periodType, o.periodType with
    | some pt, some pt' => pt'.typ = pt.typ ∧
        Q.eqv (o.period.mul (phys T pt'.unit)) ((Q.ofInt p.period).mul (phys T pt.unit))
    | none, none => o.period = Q.ofInt p.period
    | _, _ => False)

/-- two node lists with the same magnitudes (signs may differ node by node) -/
inductive SameMagnitudes : List (Int × Int) → List (Int × Int) → Prop where
  | nil : SameMagnitudes [] []
  | cons {x y : Int × Int} {a b : List (Int × Int)} :
      x.1.natAbs = y.1.natAbs → x.2.natAbs = y.2.natAbs → SameMagnitudes a b →
      SameMagnitudes (x :: a) (y :: b)

/-! ## Boolean checkers -/

def posQ (q : Q) : Bool := decide (0 < q.num) && decide (0 < q.den)

/-- every factor (default units included) is a positive rational -/
def factorsPosB (T : Table) : Bool :=
  T.all fun F => posQ F.default.factor && F.units.all fun u => posQ u.factor

def pairwiseB {α} (r : α → α → Bool) : List α → Bool
  | [] => true
  | a :: l => l.all (r a) && pairwiseB r l

/-- within a family no two units have the same size -/
def factorsDistinctB (T : Table) : Bool :=
  T.all fun F => pairwiseB (fun u w => !decide (Q.eqv u.factor w.factor)) F.units

/-- all aliases of a family -/
def allAliases (F : Family) : List Str := F.units.flatMap unitNames

/-- two alias strings can never be taken for one another by `sniffUnit` (equal, or one the
plural of the other) -/
def aliasClash (a b : Str) : Bool := a == b || a == b ++ [115] || b == a ++ [115]

/-- no alias, and no plural of an alias, of one family is an alias of another family -/
def aliasesDisjointB (T : Table) : Bool :=
  pairwiseB (fun F G => (allAliases F).all fun a => (allAliases G).all fun b => !aliasClash a b) T

/-- aliases are written in lower case (they are compared with lower-cased input) -/
def aliasesLowerB (T : Table) : Bool :=
  T.all fun F => F.units.all fun u => u.aliases.all fun a => asciiLower a == a

/-- the spellings of an alias that must be recognised -/
def spellings (a : Str) : List Str :=
  [a, asciiUpper a] ++ (if 2 ≤ a.length then [a ++ [115], asciiUpper (a ++ [115])] else [])

/-- sniffing any listed alias, its plural (aliases of two or more bytes) and their upper-case
spellings finds the alias's unit -/
def everyAliasRecognisedB (T : Table) : Bool :=
  T.all fun F => F.units.all fun u =>
    sniffUnit F u.name == some u &&
    u.aliases.all fun a => (spellings a).all fun s => sniffUnit F s == some u

/-- the default unit of a family is one of its units (same printed name, same size) -/
def defaultInFamilyB (T : Table) : Bool :=
  T.all fun F => F.units.any fun u => u.name == F.default.name && u.factor == F.default.factor

/-- the target words that ask for automatic selection are not unit names -/
def autoNotUnitB (T : Table) : Bool :=
  T.all fun F => (sniffUnit F sAuto).isNone && (sniffUnit F sMinimum).isNone

/-- for two units of a family the larger is a whole number of hundredths of the smaller
(needed for monotone labels: a unit step never falls inside a display-rounding interval) -/
def centesimalB (F : Family) : Bool :=
  F.units.all fun u => F.units.all fun w =>
    !Q.ltB u.factor w.factor ||
      decide ((100 * w.factor.num * (u.factor.den : Int)) % (w.factor.den * u.factor.num) = 0)

/-! ## the table against the dictionary of unit meanings -/

def closeB (a b : Q) : Bool :=
  -- |a - b| * 2^51 <= |b|   (a, b with positive denominators)
  decide (((a.num * b.den - b.num * a.den).natAbs : Int) * 2251799813685248 * b.den ≤
          (b.num.natAbs : Int) * (a.den * b.den))

def sameSet (a b : List Str) : Bool := a.all b.contains && b.all a.contains

/-- table unit `u` is the dictionary unit `s` (printed name, set of names) -/
def unitMatches (u : MUnit) (s : Spec.Units.SUnit) : Bool := u.name == s.display && sameSet u.aliases s.names

/-- family `F` of the table is family `S` of the dictionary: the same units (in any order), and
all size RATIOS agree (exactly for integers below 2^51, else within 2^-51: the table holds
float64 values of decimal fractions).  Which unit is the family's default is not compared: the
property does not promise it (`default_unit_in_family` says it is one of the family's units). -/
def familyMatches (F : Family) (S : Spec.Units.SFamily) : Bool :=
  F.units.length == S.units.length &&
  (F.units.all fun u => S.units.any fun s => unitMatches u s) &&
  (S.units.all fun s => F.units.any fun u => unitMatches u s) &&
  (F.units.all fun u => F.units.all fun w => S.units.all fun s => S.units.all fun t =>
    !(unitMatches u s && unitMatches w t) ||
      closeB (u.factor.mul ⟨t.num, t.den⟩) (w.factor.mul ⟨s.num, s.den⟩))

/-- the table says what the dictionary says (families in any order) -/
def refinesSpecB (T : Table) : Bool :=
  T.length == Spec.Units.spec.length &&
  (T.all fun F => Spec.Units.spec.any fun S => familyMatches F S) &&
  (Spec.Units.spec.all fun S => T.any fun F => familyMatches F S)

end PV.Measure
