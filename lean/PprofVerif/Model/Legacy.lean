import PprofVerif.Model.LegacyCount
import PprofVerif.Model.LegacyContention
import PprofVerif.Model.LegacyJavaCpu
/-!
# C14 — legacy profile formats: the dispatch of `parseLegacy` and `ParseData`

The per-format documents, printers, documented meanings (`expectedX`) and parsers live in
`LegacyCount`, `LegacyHeap`, `LegacyContention`, `LegacyThread`, `LegacyCpu`, `LegacyJava`,
`LegacyJavaCpu` (shared text machinery in `LegacyBase`, memory maps and final assembly in
`LegacyMap`).
-/
namespace PV.Legacy
open PV

/-- `parseLegacy` (profile.go): the parsers in the order the Go code tries them; an
`unrecognized` result moves on to the next one, any other error is final. -/
def parseLegacy (scale : ScaleFn) (cyc : CycFn) (b : Str) : Outcome Profile :=
  let orElse (r : Outcome Profile) (next : Unit → Outcome Profile) : Outcome Profile :=
    match r with
    | .err "unrecognized" => next ()
    | r => r
  orElse (parseCPU b) fun _ =>
  orElse (parseHeap scale b) fun _ =>
  orElse (parseGoCount b) fun _ =>
  orElse (parseThread b) fun _ =>
  orElse (parseContention cyc b) fun _ =>
  parseJavaProfile scale b

/-- none of the three (unanchored) header regexps of `parseHeap` matches anywhere in the line. -/
def noHeapHeader (l : Str) : Bool :=
  (searchRe matchHeapHeaderAt l).isNone && (searchRe (matchOtherHeaderAt (asc "growth")) l).isNone &&
  (searchRe (matchOtherHeaderAt (asc "fragmentation")) l).isNone

/-- A threadz document that starts directly with a thread header (no comment lines, no
`--- threadz N ---` line): that first line — which carries the free-text thread name — must not
also read as a heap profile header, or `parseHeap`, tried before `parseThread`, claims the
document.  (Every other first line of a threadz document provably is not a heap header.) -/
def ThreadDoc.chainOK (d : ThreadDoc) : Bool :=
  match d.pre, d.head, d.recs with
  | [], none, r :: _ => noHeapHeader r.headerLine
  | _, _, _ => true

/-- the two errors of `ParseUncompressed` after which `ParseData` does NOT try the legacy
parsers (`errNoData`, `errConcatProfile`; the strings are those of `Model/Codec`). -/
def errNoData : String := "empty input file"
def errConcatProfile : String := "concatenated profiles detected"

/-- `ParseData` after decompression: the protobuf decoder is tried first (parameter `pb`: the
decoder is the subject of C01/C02; `Lemmas/LegacyPb` instantiates it with
`Codec.parseUncompressed`), the legacy parsers only when it fails with an error other than
`errNoData` / `errConcatProfile`; a panic of the decoder is a panic of `ParseData`. -/
def parseData (pb : Str → Outcome Profile) (scale : ScaleFn) (cyc : CycFn) (b : Str) : Outcome Profile :=
  match pb b with
  | .ok p => .ok p
  | .panic s => .panic s
  | .err e => if e == errNoData || e == errConcatProfile then .err e else parseLegacy scale cyc b

/-- the decoder's answer sends `ParseData` on to the legacy parsers. -/
def PbRejects (r : Outcome Profile) : Prop := ∃ e, r = .err e ∧ e ≠ errNoData ∧ e ≠ errConcatProfile

end PV.Legacy
