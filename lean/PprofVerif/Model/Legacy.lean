import PprofVerif.Model.LegacyCount
import PprofVerif.Model.LegacyContention
import PprofVerif.Model.LegacyJava
/-!
# C14 — legacy profile formats: the dispatch of `parseLegacy`

The per-format documents, printers, documented meanings (`expectedX`) and parsers live in
`LegacyCount`, `LegacyHeap`, `LegacyContention`, `LegacyThread`, `LegacyCpu`, `LegacyJava`
(shared text machinery in `LegacyBase`, memory maps and final assembly in `LegacyMap`).
-/
namespace PV.Legacy
open PV

/-- `parseLegacy` (profile.go): the parsers in the order the Go code tries them; an
`unrecognized` result moves on to the next one, any other error is final. -/
def parseLegacy (scale : ScaleFn) (cyc : CycFn) (b : Str) : Outcome Profile :=
  let orElse (r : Outcome Profile) (next : Unit → Outcome Profile) : Outcome Profile :=
    match r with
    | .err "unrecognized" => next ()
    | r => r
  orElse (parseCPU b) fun _ =>
  orElse (parseHeap scale b) fun _ =>
  orElse (parseGoCount b) fun _ =>
  orElse (parseThread b) fun _ =>
  orElse (parseContention cyc b) fun _ =>
  parseJavaProfile scale b

/-- `ParseData` after decompression: the protobuf decoder is tried first (parameter `pb`: the
decoder is the subject of C01/C02, `Model/Codec`), the legacy parsers only when it fails. -/
def parseData (pb : Str → Outcome Profile) (scale : ScaleFn) (cyc : CycFn) (b : Str) : Outcome Profile :=
  match pb b with
  | .ok p => .ok p
  | _ => parseLegacy scale cyc b

end PV.Legacy
