import PprofVerif.Model.Codec
import PprofVerif.Model.LegacyCPU
/-
Model of the format dispatch of `profile.ParseData` (profile/profile.go) for input that is
not gzip-compressed (gzip is an external parameter: the harness feeds the decompressed bytes):
protobuf first; `errNoData` / `errConcatProfile` short-circuit; otherwise the legacy parsers in
order, of which only the first — the binary CPU parser — is modelled; finally the validity gate
`CheckValid` on whatever was parsed.
-/
namespace PV
namespace Parse
open Wire (Bytes)

/-- `ParseData` restricted to the protobuf path: `ParseUncompressed` then `CheckValid`. -/
def parseData (b : Bytes) : Outcome Profile :=
  match Codec.parseUncompressed b with
  | .ok p => if p.validB then .ok p else .err "malformed profile"
  | .err e => .err e
  | .panic s => .panic s

inductive Dispatch where
  | proto (p : Profile)                 -- accepted protobuf, passed CheckValid
  | rejected                            -- an error is returned without consulting the legacy parsers, or CheckValid failed
  | legacyCPU (r : LegacyCPU.CPUResult) -- binary CPU profile recognised; the text tail is parsed next (not modelled)
  | legacyText                          -- handed to the text parsers (not modelled)

/-- the two errors after which `ParseData` does not try the legacy parsers -/
def isFinalError (e : String) : Bool := e == "empty input file" || e == "concatenated profiles detected"

def dispatch (b : Bytes) : Outcome Dispatch :=
  match Codec.parseUncompressed b with
  | .ok p => if p.validB then .ok (.proto p) else .ok .rejected
  | .panic s => .panic s
  | .err e =>
    if isFinalError e then .ok .rejected else
    match LegacyCPU.parseCPU b with
    | .ok (some r) => .ok (.legacyCPU r)
    | .ok none => .ok .legacyText
    | .err _ => .ok .rejected
    | .panic s => .panic s

end Parse
end PV
