import PprofVerif.Model.Trim
import PprofVerif.Model.GraphOrder
/-
Bridge between C05's trim model (`Model/Trim.lean`: entries with hand-written comparators
`lessFlat` / `lessCum`) and C08's comparators-as-data (interpreter `Order.lessOf`): the projections
of an `Entry`, the comparator a descriptor list denotes on entries, the entry of a graph node, and
the descriptor lists of FlatNameOrder / CumNameOrder written out (`flatNameKeys`, `cumNameKeys`).
This file does NOT import the regenerated `Gen/Comparators.lean`: that the two lists written here
are the ones `tools/extract` regenerates from graph.go is a per-run obligation of C08
(`Props/C08.lean`: `trim_orders_are_the_regenerated_ones`).  Core Lean only.
-/
namespace PV.Trim
open PV.Order PV.GraphOrder PV.GSpec

/-- an `Entry` seen through the projections the node comparators of graph.go read: weights, the
printable name and the `fmt.Sprint(Info)` string; `score[n]` of CumNameOrder is `n.Cum`
(`Gen.Comparators.nodes_CumNameOrder_score`, checked in Props/C08.lean). -/
def entryGet : NodeProj → Entry → Key
  | .Flat, e => ikey e.flat
  | .Cum, e => ikey e.cum
  | .Score, e => ikey e.cum
  | .Info_PrintableName, e => skey e.name
  | .Sprint_Info, e => skey e.infoStr
  | _, _ => []

/-- the comparator a descriptor list denotes on entries -/
def entryLess (ks : List (KD NodeProj)) : Entry → Entry → Bool := lessOf (ks.map (KD.toDesc entryGet))

/-- the entry of a graph node -/
def entryOfNode (id : Nat) (n : Node) : Entry := ⟨id, printableName n.info, sprintInfo n.info, n.flat, n.cum⟩

/-- graph.go `Nodes.Sort` case FlatNameOrder as a descriptor list (= `Gen.Comparators.nodes_FlatNameOrder`) -/
def flatNameKeys : List (KD NodeProj) :=
  [⟨.Flat, .same, .desc, .abs⟩, ⟨.Info_PrintableName, .same, .asc, .id⟩, ⟨.Cum, .same, .desc, .abs⟩,
   ⟨.Sprint_Info, .same, .asc, .id⟩]

/-- case CumNameOrder (= `Gen.Comparators.nodes_CumNameOrder`; its score map holds `Cum`) -/
def cumNameKeys : List (KD NodeProj) :=
  [⟨.Score, .same, .desc, .abs⟩, ⟨.Info_PrintableName, .same, .asc, .id⟩, ⟨.Flat, .same, .desc, .abs⟩,
   ⟨.Sprint_Info, .same, .asc, .id⟩]

/-- the descriptor list of the active order -/
def genOrder (o : TrimOpts) : List (KD NodeProj) := if o.cumSort then cumNameKeys else flatNameKeys

def NoMin (e : Entry) : Prop := e.flat ≠ minI64 ∧ e.cum ≠ minI64

/-- the projections an `Entry` carries -/
def readable (p : NodeProj) : Bool :=
  p == .Flat || p == .Cum || p == .Score || p == .Info_PrintableName || p == .Sprint_Info

end PV.Trim
