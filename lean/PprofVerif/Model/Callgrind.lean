import PprofVerif.Base.Basic
/-
C18 — callgrind side.

Part 1 is the model of the two compression helpers of internal/report/report.go
(`callgrindName` with its id table, `callgrindAddress`), with Go's `%d`, `%+d`, `%#x` verbs as
`dec`/`hex`.

Part 2 is a checker/decompressor for the Callgrind Format, Version 1, following the grammar in
/usr/share/doc/valgrind/html/cl-format.html (§3.1.5 name compression, §3.1.6 subposition
compression, §3.2.1 grammar): header lines, position specifications `spec=(id) name` / `spec=(id)`
/ `spec=name` with one id table per kind (object, file, function), cost lines, and `calls=` lines
that MUST be followed by a cost line.  "A relative subposition always is based on the
corresponding subposition of the last cost line."  It returns the decoded (absolute) entries.
Core Lean only: linked into pvdrv-C18 and run on the REAL output of pprof.
-/
namespace PV
namespace Callgrind

abbrev Bytes := List UInt8

def two64 : Nat := 18446744073709551616
def two63 : Nat := 9223372036854775808

def NL : UInt8 := 0x0a
def SP : UInt8 := 0x20
def TAB : UInt8 := 0x09

/-! ### numbers -/

def decDigit (d : Nat) : UInt8 := UInt8.ofNat (48 + d)
def hexDigit (d : Nat) : UInt8 := if d < 10 then UInt8.ofNat (48 + d) else UInt8.ofNat (87 + d)

/-- little-endian decimal digits, at least one -/
def decLE (n : Nat) : Bytes :=
  if h : n < 10 then [decDigit n] else decDigit (n % 10) :: decLE (n / 10)
termination_by n
decreasing_by omega

/-- Go `%d` of a non-negative integer -/
def dec (n : Nat) : Bytes := (decLE n).reverse

def hexLE (n : Nat) : Bytes :=
  if h : n < 16 then [hexDigit n] else hexDigit (n % 16) :: hexLE (n / 16)
termination_by n
decreasing_by omega

/-- Go `%x` -/
def hex (n : Nat) : Bytes := (hexLE n).reverse

def decVal (b : UInt8) : Option Nat :=
  if 48 ≤ b.toNat ∧ b.toNat ≤ 57 then some (b.toNat - 48) else none

def hexVal (b : UInt8) : Option Nat :=
  if 48 ≤ b.toNat ∧ b.toNat ≤ 57 then some (b.toNat - 48)
  else if 97 ≤ b.toNat ∧ b.toNat ≤ 102 then some (b.toNat - 87)
  else if 65 ≤ b.toNat ∧ b.toNat ≤ 70 then some (b.toNat - 55)
  else none

/-- big-endian digit string → number, starting from accumulator `acc` -/
def parseDigits (base : Nat) (val : UInt8 → Option Nat) : Bytes → Nat → Option Nat
  | [], acc => some acc
  | b :: r, acc =>
    match val b with
    | some d => parseDigits base val r (acc * base + d)
    | none => none

/-- `Digit+` -/
def parseDec (s : Bytes) : Option Nat :=
  match s with
  | [] => none
  | _ => parseDigits 10 decVal s 0

/-- grammar `Number := "0x" (Digit|HexChar)+ | Digit+` -/
def parseNumber (s : Bytes) : Option Nat :=
  match s with
  | 0x30 :: 0x78 :: h =>
    (match h with
     | [] => none
     | _ => parseDigits 16 hexVal h 0)
  | _ => parseDec s

/-! ### model of report.go `callgrindName` / `callgrindAddress` -/

def isBlank (b : UInt8) : Bool := b = SP || b = TAB

/-- what `callgrindName` does to a name before looking it up (repaired code: a position name is
one line and does not start with a blank — the format skips `Space*` after the id):
`strings.TrimLeft(strings.ReplaceAll(name, "\n", " "), " \t")`. -/
def sanitize (name : Bytes) : Bytes :=
  (name.map fun b => if b = NL then SP else b).dropWhile isBlank

def lookupId (tbl : List (Bytes × Nat)) (name : Bytes) : Option Nat :=
  match tbl with
  | [] => none
  | (n, i) :: r => if n = name then some i else lookupId r name

def LP : UInt8 := 0x28
def RP : UInt8 := 0x29

/-- `callgrindName(names, name)`: the Go map is an association list (newest first);
`len(names)+1` is the next id. -/
def cgName (tbl : List (Bytes × Nat)) (name : Bytes) : Bytes × List (Bytes × Nat) :=
  let name := sanitize name
  if name = [] then ([], tbl)
  else match lookupId tbl name with
    | some id => (LP :: dec id ++ [RP], tbl)
    | none =>
      let id := tbl.length + 1
      (LP :: dec id ++ RP :: SP :: name, (name, id) :: tbl)

/-- `int64(curr - prev)` on uint64 operands -/
def diff64 (prev cur : Nat) : Int :=
  let d := (cur + two64 - prev % two64) % two64
  if d < two63 then (d : Int) else (d : Int) - (two64 : Int)

/-- Go `%+d` -/
def signedDec (i : Int) : Bytes :=
  if i < 0 then 0x2d :: dec (-i).toNat else 0x2b :: dec i.toNat

/-- `callgrindAddress(prevInfo, curr)`; `prev = none` is `prevInfo == nil`. -/
def cgAddr (prev : Option Nat) (cur : Nat) : Bytes :=
  let abs := 0x30 :: 0x78 :: hex cur
  match prev with
  | none => abs
  | some p =>
    if p = cur then [0x2a]
    else
      let rel := signedDec (diff64 p cur)
      if rel.length < abs.length then rel else abs

/-! ### checker -/

/-- one subposition token against the corresponding subposition of the last cost line;
relative forms are evaluated in 64-bit arithmetic (addresses are 64-bit, §3.1.6). -/
def decodeSub (last : Option Nat) (tok : Bytes) : Option Nat :=
  match tok with
  | [] => none
  | b :: r =>
    if b = 0x2a then (if r = [] then last else none)
    else if b = 0x2b then
      match last, parseNumber r with
      | some l, some n => some ((l + n) % two64)
      | _, _ => none
    else if b = 0x2d then
      match last, parseNumber r with
      | some l, some n => some ((l + two64 - n % two64) % two64)
      | _, _ => none
    else
      match parseNumber tok with
      | some n => if n < two64 then some n else none
      | none => none

/-- split at every newline; the piece after the last newline is returned separately -/
def splitLinesAux : Bytes → Bytes → List Bytes → List Bytes × Bytes
  | [], cur, acc => (acc.reverse, cur.reverse)
  | b :: r, cur, acc =>
    if b = NL then splitLinesAux r [] (cur.reverse :: acc) else splitLinesAux r (b :: cur) acc

def splitLines (s : Bytes) : List Bytes × Bytes := splitLinesAux s [] []

/-- words separated by `Space+` -/
def wordsAux : Bytes → Bytes → List Bytes → List Bytes
  | [], cur, acc => (if cur = [] then acc else cur.reverse :: acc).reverse
  | b :: r, cur, acc =>
    if isBlank b then wordsAux r [] (if cur = [] then acc else cur.reverse :: acc)
    else wordsAux r (b :: cur) acc

def words (s : Bytes) : List Bytes := wordsAux s [] []

def isDigit (b : UInt8) : Bool := decide (48 ≤ b.toNat) && decide (b.toNat ≤ 57)

abbrev Defs := List (Nat × Bytes)

def lookupDef (defs : Defs) (n : Nat) : Option Bytes :=
  match defs with
  | [] => none
  | (i, nm) :: r => if i = n then some nm else lookupDef r n

inductive NameErr where
  | undefinedRef (id : Nat)
  | redefined (id : Nat)
  | malformed
  deriving Repr, DecidableEq

/-- `PositionName := ( "(" Number ")" )? (Space* NoNewLineChar*)?` — §3.2.3: "If it starts with
"(" and a digit, it's a string in compressed format. Otherwise it's the real position string."
`(n) name` defines (re-defining `n` with a different name is an error), `(n)` refers. -/
def resolveName (defs : Defs) (v : Bytes) : Except NameErr (Bytes × Defs) :=
  let v := v.dropWhile isBlank
  match v with
  | p :: d :: _ =>
    if p = LP && isDigit d then
      let ds := (v.drop 1).takeWhile isDigit
      let rest := (v.drop 1).dropWhile isDigit
      match rest with
      | q :: rest' =>
        if q = RP then
          match parseDec ds with
          | some n =>
            let name := rest'.dropWhile isBlank
            if name = [] then
              match lookupDef defs n with
              | some nm => .ok (nm, defs)
              | none => .error (.undefinedRef n)
            else
              match lookupDef defs n with
              | some old => if old = name then .ok (name, defs) else .error (.redefined n)
              | none => .ok (name, (n, name) :: defs)
          | none => .error .malformed
        else .error .malformed
      | [] => .error .malformed
    else .ok (v, defs)
  | _ => .ok (v, defs)

structure Cost where
  ob : Bytes
  fl : Bytes
  fn : Bytes
  pos : List Nat
  costs : List Nat
  deriving Repr, DecidableEq

structure Call where
  fl : Bytes
  fn : Bytes
  cfl : Bytes
  cfn : Bytes
  count : Nat
  tpos : List Nat
  spos : List Nat
  costs : List Nat
  deriving Repr, DecidableEq

structure St where
  inHeader : Bool := true
  npos : Nat := 1          -- "positions:" defaults to "line"
  events : Bool := false
  obT : Defs := []
  flT : Defs := []
  fnT : Defs := []
  ob : Bytes := []
  fl : Bytes := []
  fn : Bytes := []
  cfl : Option Bytes := none
  cfn : Option Bytes := none
  last : Option (List Nat) := none
  pending : Option (Nat × List Nat) := none
  costs : List Cost := []   -- newest first
  calls : List Call := []   -- newest first
  deriving Repr

inductive Err where
  | name (spec : Bytes) (e : NameErr)
  | badLine
  | badHeader
  | badSubposition
  | badCost
  | callWithoutCost
  | callWithoutTarget
  | noEvents
  | noFinalNewline
  deriving Repr, DecidableEq

def str (s : String) : Bytes := s.toUTF8.toList

def headerKeys : List Bytes :=
  [str "version", str "creator", str "pid", str "cmd", str "part", str "thread", str "desc",
   str "event", str "summary", str "totals"]

/-- decode `n` subposition words against `last` -/
def decodeSubs : List Bytes → Option (List Nat) → Option (List Nat)
  | [], _ => some []
  | w :: ws, last =>
    let l0 := match last with | some (x :: _) => some x | _ => none
    let lr := match last with | some (_ :: r) => some r | _ => none
    match decodeSub l0 w, decodeSubs ws lr with
    | some a, some r => some (a :: r)
    | _, _ => none

def parseCosts : List Bytes → Option (List Nat)
  | [] => some []
  | w :: ws =>
    match parseNumber w, parseCosts ws with
    | some a, some r => some (a :: r)
    | _, _ => none

def startsWith (p s : Bytes) : Bool := s.take p.length = p

/-- a header line; `none` = not a header line -/
def headerLine (st : St) (l : Bytes) : Option (Except Err St) :=
  let key := l.takeWhile (· ≠ 0x3a)
  let rest := (l.dropWhile (· ≠ 0x3a)).drop 1
  if l.all (· ≠ 0x3a) then none
  else if key = str "positions" then
    let ws := words rest
    if ws = [str "instr", str "line"] then some (.ok { st with npos := 2 })
    else if ws = [str "instr"] ∨ ws = [str "line"] ∨ ws = [] then some (.ok { st with npos := 1 })
    else some (.error .badHeader)
  else if key = str "events" then
    if (words rest) = [] then some (.error .badHeader) else some (.ok { st with events := true })
  else if headerKeys.contains key then some (.ok st)
  else none

def costStart (b : UInt8) : Bool := isDigit b || b = 0x2a || b = 0x2b || b = 0x2d

def bodyLine (st : St) (l : Bytes) : Except Err St :=
  match l with
  | [] => if st.pending.isSome then .error .callWithoutCost else .ok st
  | b :: _ =>
    if b = 0x23 then (if st.pending.isSome then .error .callWithoutCost else .ok st)
    else if costStart b then
      let ws := words l
      if ws.length < st.npos then .error .badSubposition else
      match decodeSubs (ws.take st.npos) st.last, parseCosts (ws.drop st.npos) with
      | some pos, some costs =>
        match st.pending with
        | some (count, tpos) =>
          match st.cfn with
          | some cfn =>
            .ok { st with last := some pos, pending := none, cfl := none, cfn := none,
                          calls := ⟨st.fl, st.fn, st.cfl.getD st.fl, cfn, count, tpos, pos, costs⟩ :: st.calls }
          | none => .error .callWithoutTarget
        | none =>
          .ok { st with last := some pos, costs := ⟨st.ob, st.fl, st.fn, pos, costs⟩ :: st.costs }
      | none, _ => .error .badSubposition
      | _, none => .error .badCost
    else if st.pending.isSome then .error .callWithoutCost
    else
      let key := l.takeWhile (· ≠ 0x3d)
      let v := (l.dropWhile (· ≠ 0x3d)).drop 1
      if l.all (· ≠ 0x3d) then .error .badLine
      else if key = str "calls" then
        match words v with
        | c :: subs =>
          match parseNumber c with
          | some count =>
            if subs.length ≠ st.npos then .error .badSubposition else
            match decodeSubs subs st.last with
            | some tpos => .ok { st with pending := some (count, tpos) }
            | none => .error .badSubposition
          | none => .error .badLine
        | [] => .error .badLine
      else if key = str "ob" ∨ key = str "cob" then
        match resolveName st.obT v with
        | .ok (nm, t) => .ok (if key = str "ob" then { st with obT := t, ob := nm } else { st with obT := t })
        | .error e => .error (.name key e)
      else if key = str "fl" ∨ key = str "fi" ∨ key = str "fe" then
        match resolveName st.flT v with
        | .ok (nm, t) => .ok { st with flT := t, fl := nm }
        | .error e => .error (.name key e)
      else if key = str "cfi" ∨ key = str "cfl" then
        match resolveName st.flT v with
        | .ok (nm, t) => .ok { st with flT := t, cfl := some nm }
        | .error e => .error (.name key e)
      else if key = str "fn" then
        match resolveName st.fnT v with
        | .ok (nm, t) => .ok { st with fnT := t, fn := nm }
        | .error e => .error (.name key e)
      else if key = str "cfn" then
        match resolveName st.fnT v with
        | .ok (nm, t) => .ok { st with fnT := t, cfn := some nm }
        | .error e => .error (.name key e)
      else .error .badLine

def stepLine (st : St) (l : Bytes) : Except Err St :=
  if st.inHeader then
    if l = [] ∨ startsWith [0x23] l then .ok st
    else match headerLine st l with
      | some r => r
      | none => bodyLine { st with inHeader := false } l
  else bodyLine st l

/-- fold over the lines; the error carries the 1-based line number -/
def runLines : List Bytes → Nat → St → Except (Nat × Err) St
  | [], _, st => .ok st
  | l :: ls, n, st =>
    match stepLine st l with
    | .ok st' => runLines ls (n + 1) st'
    | .error e => .error (n, e)

structure Result where
  costs : List Cost
  calls : List Call
  deriving Repr, DecidableEq

def check (s : Bytes) : Except (Nat × Err) Result :=
  let (ls, tail) := splitLines s
  if tail ≠ [] then .error (ls.length + 1, .noFinalNewline) else
  match runLines ls 1 {} with
  | .ok st =>
    if st.pending.isSome then .error (ls.length, .callWithoutCost)
    else if !st.events then .error (ls.length, .noEvents)
    else .ok ⟨st.costs.reverse, st.calls.reverse⟩
  | .error e => .error e

/-- calls whose target (file, function, position) has no cost line of its own -/
def Result.undeclaredTargets (r : Result) : List Call :=
  r.calls.filter fun c => !(r.costs.any fun k => k.fl = c.cfl && k.fn = c.cfn && k.pos = c.tpos)

end Callgrind
end PV
