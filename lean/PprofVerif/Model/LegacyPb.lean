import PprofVerif.Model.Legacy
import PprofVerif.Model.Codec
/-!
# C14 — `ParseData` with the real protobuf decoder

`Legacy.parseData` takes the protobuf decoder as a parameter; here it is instantiated with the
codec model of C01/C02 (`Codec.parseUncompressed`, `Model/Codec.lean`), so that statements about
the whole of `ParseData` — which documents the decoder provably rejects, and the witness of the
known finding `C14/cpu/taken-for-protobuf` — are about model definitions only.
-/
namespace PV.Legacy
open PV

/-- `profile.ParseData` on uncompressed input: `ParseUncompressed`, then `parseLegacy`. -/
def parseDataReal (scale : ScaleFn) (cyc : CycFn) (b : Str) : Outcome Profile :=
  parseData Codec.parseUncompressed scale cyc b

/-- the profile the protobuf decoder returns for a message without any known field -/
def emptyPbProfile : Profile :=
  { sampleType := [], defaultSampleType := [], samples := [], mappings := [], locations := [], functions := [],
    comments := [], docURL := [], dropFrames := [], keepFrames := [], timeNanos := 0, durationNanos := 0,
    periodType := some ⟨[], []⟩, period := 0 }

/-- witness of `C14/cpu/taken-for-protobuf` (corpus/C14/cpu-bigendian-taken-for-protobuf.json):
64-bit big-endian, period 100 µs, one sample (count 1) at the single address 0x3200, end marker. -/
def shadowedCpuDoc : CpuDoc :=
  { big := true, w64 := true, period := 100, recs := [{ count := 1, addrs := [12800] }], eod := true, map := none }

end PV.Legacy
