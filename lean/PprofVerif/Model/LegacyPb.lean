import PprofVerif.Model.Legacy
import PprofVerif.Model.Codec
/-!
# C14 — `ParseData` with the real protobuf decoder

`Legacy.parseData` takes the protobuf decoder as a parameter; here it is instantiated with the
codec model of C01/C02 (`Codec.parseUncompressed`, `Model/Codec.lean`), so that statements about
the whole of `ParseData` — which documents the decoder provably rejects, and the witness of the
known finding `C14/cpu/taken-for-protobuf` — are about model definitions only.
-/
namespace PV.Legacy
open PV

/-- `profile.ParseData` on uncompressed input: `ParseUncompressed`, then `parseLegacy`. -/
def parseDataReal (scale : ScaleFn) (cyc : CycFn) (b : Str) : Outcome Profile :=
  parseData Codec.parseUncompressed scale cyc b

/-- the profile the protobuf decoder returns for a message without any known field -/
def emptyPbProfile : Profile :=
  { sampleType := [], defaultSampleType := [], samples := [], mappings := [], locations := [], functions := [],
    comments := [], docURL := [], dropFrames := [], keepFrames := [], timeNanos := 0, durationNanos := 0,
    periodType := some ⟨[], []⟩, period := 0 }

/-- witness of `C14/cpu/taken-for-protobuf` (corpus/C14/cpu-bigendian-taken-for-protobuf.json):
64-bit big-endian, period 100 µs, one sample (count 1) at the single address 0x3200, end marker. -/
def shadowedCpuDoc : CpuDoc :=
  { big := true, w64 := true, period := 100, recs := [{ count := 1, addrs := [12800] }], eod := true, map := none }

/-- witness of `C14/count/taken-for-concatenated-protobuf` (corpus/C14): a count profile named
`H1H1` — `H` is the tag of time_nanos, seen twice — is refused as "concatenated profiles". -/
def concatCountDoc : CountDoc :=
  { pre := [], name := asc "H1H1", total := 3, width := 0, recs := [{ fill := [], n := 1, addrs := [1] }], post := [], map := none }

def heapNamedThreadRec : ThreadRec :=
  { id := 1, name := asc "heap profile: 1: 2 [3: 4] @ heap_v2/1", tid := 5,
    body := .stack [{ blanks := 0, indent := 2, label := .none, addrs := [16], sym := none }] }

/-- witness of `C14/thread/taken-for-heap` (corpus/C14): a threadz document starting directly
with the header of a thread whose name reads as a heap profile header. -/
def heapNamedThreadDoc : ThreadDoc :=
  { pre := [], head := none, width := 0, recs := [heapNamedThreadRec], ending := .noStack 0 none }

end PV.Legacy
