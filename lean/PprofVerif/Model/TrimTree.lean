import PprofVerif.Model.Graph
/-
Executable model of `(*Graph).TrimTree` and `(*Graph).RemoveRedundantEdges`
(internal/graph/graph.go:464, :888).  Core Lean only.

Go representation: `g.Nodes []*Node`; every `*Node` has two maps `In, Out EdgeMap` (`map[*Node]*Edge`),
an `*Edge` object being shared between `Src.Out[Dest]` and `Dest.In[Src]`.  The model keeps

* `nodes`  — the `g.Nodes` slice being rebuilt: node key + the node's accumulators (TrimTree never
             touches Flat/Cum; they are carried through so that this is a statement, not an omission);
* `ins`    — the union of all `n.In` maps:  `(src, dest) ↦ edge` is present iff `dest.In[src]` is;
* `outs`   — the union of all `n.Out` maps: `(src, dest) ↦ edge` is present iff `src.Out[dest]` is.

The two tables are updated separately, statement by statement as the Go code does (`delete(child.In,
cur)` touches only `ins`, `delete(parent.Out, cur)` only `outs`, …); Go leaves stale entries in the
maps of nodes it drops from `g.Nodes` (`cur.In[parent]`, `cur.Out[child]`) and so does the model
(through Go's stale `cur.Out[child]` the shared `*Edge` shows its new Src/Residual, the model's stale
entry keeps the old flag: nothing reads either — only `g.Nodes` is reachable afterwards, and the
theorems and the correspondence speak about listed nodes only).  That the two views agree on every node
that is still listed is a theorem (Props/C05 `trimTree_marks_residual`), not an assumption.
`TNode` / `TState.view` is the call-tree node as a report sees it afterwards: key, figures, parents
(`In`) and children (`Out`).

Not modelled: `Edge.Inline` (no report figure depends on it).  `EdgeMap.Sort` (the order in which
`RemoveRedundantEdges` walks a node's in-edges; C08's comparators) is the parameter `sortIn`.
-/
namespace PV.TrimTree
open PV PV.GSpec PV.Graph

/-- an edge map keyed by (src, dest) -/
abbrev ETable (κ : Type) := List ((κ × κ) × EdgeAcc)

section tables
variable {α β : Type} [DecidableEq α]

/-- `v, ok := m[k]` -/
def tfind (t : List (α × β)) (k : α) : Option β :=
  match t with
  | [] => none
  | (k', v) :: r => if k' = k then some v else tfind r k

/-- `delete(m, k)` -/
def tdel (t : List (α × β)) (k : α) : List (α × β) := t.filter (fun e => !decide (e.1 = k))

/-- `m[k] = v` (replaces the value in place, else appends) -/
def tset (t : List (α × β)) (k : α) (v : β) : List (α × β) :=
  match t with
  | [] => [(k, v)]
  | (k', v') :: r => if k' = k then (k', v) :: r else (k', v') :: tset r k v
end tables

variable {κ : Type} [DecidableEq κ]

/-- `n.In` as a list of entries of the `ins` table -/
def inEdges (ins : ETable κ) (n : κ) : ETable κ := ins.filter (fun e => decide (e.1.2 = n))
/-- `n.Out` as a list of entries of the `outs` table -/
def outEdges (outs : ETable κ) (n : κ) : ETable κ := outs.filter (fun e => decide (e.1.1 = n))

structure TState (κ : Type) where
  nodes : List (κ × NodeAcc)
  ins : ETable κ
  outs : ETable κ

/-- the call-tree node as seen through `g.Nodes` afterwards -/
structure TNode (κ : Type) where
  key : κ
  acc : NodeAcc
  parents : List (κ × EdgeAcc)     -- n.In:  src  ↦ edge
  children : List (κ × EdgeAcc)    -- n.Out: dest ↦ edge

def TState.view (st : TState κ) : List (TNode κ) :=
  st.nodes.map fun (n, a) =>
    { key := n, acc := a,
      parents := (inEdges st.ins n).map (fun e => (e.1.1, e.2)),
      children := (outEdges st.outs n).map (fun e => (e.1.2, e.2)) }

/-- graph.go:483-487 — `cur` has no parent: `for _, outEdge := range cur.Out { delete(outEdge.Dest.In, cur) }` -/
def detachChildren (cur : κ) (ins : ETable κ) : List ((κ × κ) × EdgeAcc) → ETable κ
  | [] => ins
  | e :: r => detachChildren cur (tdel ins (cur, e.1.2)) r

/-- graph.go:506-519 — every edge `cur → child` now begins at `parent` and is marked residual:
`delete(child.In, cur); child.In[parent] = outEdge; parent.Out[child] = outEdge;
 outEdge.Src = parent; outEdge.Residual = true` -/
def rewire (parent cur : κ) (io : ETable κ × ETable κ) : List ((κ × κ) × EdgeAcc) → ETable κ × ETable κ
  | [] => io
  | e :: r =>
    let child := e.1.2
    let e' : EdgeAcc := { e.2 with residual := true }
    rewire parent cur (tset (tdel io.1 (cur, child)) (parent, child) e', tset io.2 (parent, child) e') r

/-- body of the loop `for _, cur := range oldNodes` (graph.go:469-520) -/
def stepNode (kept : κ → Bool) (st : TState κ) (cur : κ × NodeAcc) : Outcome (TState κ) :=
  let inC := inEdges st.ins cur.1
  if inC.length > 1 then .panic "TrimTree only works on trees"
  else if kept cur.1 then .ok { st with nodes := st.nodes ++ [cur] }
  else if inC.length = 0 then
    .ok { st with ins := detachChildren cur.1 st.ins (outEdges st.outs cur.1) }
  else if inC.length ≠ 1 then .panic "Get parent assertion failed. cur.In expected to be of length 1."
  else
    match inC with
    | [e] =>
      let parent := e.1.1
      let outs1 := tdel st.outs (parent, cur.1)              -- delete(parent.Out, cur)
      let io := rewire parent cur.1 (st.ins, outs1) (outEdges outs1 cur.1)
      .ok { st with ins := io.1, outs := io.2 }
    | _ => .panic "Get parent assertion failed. cur.In expected to be of length 1."

def trimLoop (kept : κ → Bool) : TState κ → List (κ × NodeAcc) → Outcome (TState κ)
  | st, [] => .ok st
  | st, cur :: r =>
    match stepNode kept st cur with
    | .ok st' => trimLoop kept st' r
    | .err e => .err e
    | .panic e => .panic e

/-! ### RemoveRedundantEdges -/

/-- inner loop of `isRedundantEdge` over `n.In`; `none` = `return true` (another way from `src` found) -/
def scanIn (skip : κ × κ) (src : κ) : List ((κ × κ) × EdgeAcc) → List κ → List κ → Option (List κ × List κ)
  | [], seen, queue => some (seen, queue)
  | ie :: r, seen, queue =>
    if ie.1 = skip || seen.contains ie.1.1 then scanIn skip src r seen queue
    else if ie.1.1 = src then none
    else scanIn skip src r (ie.1.1 :: seen) (queue ++ [ie.1.1])

/-- the breadth-first walk of `isRedundantEdge`; fuel bounds the number of dequeued nodes (each node
is enqueued at most once, so `ins.length + 1` is never exhausted on the inputs the theorems cover;
exhaustion is reported, not defaulted). -/
def bfs (ins : ETable κ) (skip : κ × κ) (src : κ) : Nat → List κ → List κ → Outcome Bool
  | _, [], _ => .ok false
  | 0, _ :: _, _ => .err "isRedundantEdge: model fuel exhausted"
  | f + 1, n :: q, seen =>
    match scanIn skip src (inEdges ins n) seen q with
    | none => .ok true
    | some (seen', q') => bfs ins skip src f q' seen'

def isRedundantEdge (ins : ETable κ) (src dst : κ) : Outcome Bool :=
  bfs ins (src, dst) src (ins.length + 1) [dst] [dst]

/-- `for j := len(in); j > 0; j--` over the sorted in-edges, given lowest first -/
def pruneIn : List ((κ × κ) × EdgeAcc) → ETable κ × ETable κ → Outcome (ETable κ × ETable κ)
  | [], io => .ok io
  | e :: r, io =>
    if !e.2.residual then .ok io
    else
      match isRedundantEdge io.1 e.1.1 e.1.2 with
      | .ok true => pruneIn r (tdel io.1 e.1, tdel io.2 e.1)
      | .ok false => pruneIn r io
      | .err m => .err m
      | .panic m => .panic m

/-- `for i := len(g.Nodes); i > 0; i--`, nodes given last first -/
def pruneNodes (sortIn : ETable κ → ETable κ) : List κ → ETable κ × ETable κ → Outcome (ETable κ × ETable κ)
  | [], io => .ok io
  | n :: r, io =>
    match pruneIn (sortIn (inEdges io.1 n)).reverse io with
    | .ok io' => pruneNodes sortIn r io'
    | .err m => .err m
    | .panic m => .panic m

def removeRedundantEdges (sortIn : ETable κ → ETable κ) (st : TState κ) : Outcome (TState κ) :=
  match pruneNodes sortIn (st.nodes.map Prod.fst).reverse (st.ins, st.outs) with
  | .ok io => .ok { st with ins := io.1, outs := io.2 }
  | .err m => .err m
  | .panic m => .panic m

/-- `g.TrimTree(kept)` for `g.Nodes = nodes` whose In/Out maps are the tables `ins`/`outs`. -/
def trimTree (sortIn : ETable κ → ETable κ) (kept : κ → Bool) (nodes : List (κ × NodeAcc))
    (ins outs : ETable κ) : Outcome (TState κ) :=
  match trimLoop kept ⟨[], ins, outs⟩ nodes with
  | .ok st => removeRedundantEdges sortIn st
  | .err m => .err m
  | .panic m => .panic m

/-- TrimTree applied to a tree built by `newTree`: `nodes` is `g.Nodes` (the listed nodes in the
order the caller left them in), both edge views start as the edge table of the tree. -/
def trimNewTree (sortIn : ETable (List κ) → ETable (List κ)) (kept : List κ → Bool)
    (g : GState (List κ)) (nodes : List (List κ × NodeAcc)) : Outcome (TState (List κ)) :=
  trimTree sortIn kept nodes g.edges g.edges

end PV.TrimTree
