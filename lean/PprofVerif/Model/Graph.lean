import PprofVerif.Model.Profile
import PprofVerif.Spec.Graph
/-
Executable model of internal/graph/graph.go: `newGraph` (nested fold over samples and frames with
the `seenNode` / `seenEdge` sets, the `residual` flag and the kept set), `newTree`, and of the
path from a profile to the abstract samples the graph is built from (`profile.Aggregate` +
`driver.aggregate`, `graph.nodeInfo`, `CreateNodes`, value selection `sampleFormat` /
`SampleIndexByName`).  Core Lean only.
-/
namespace PV.Graph
open PV.GSpec

/-! ### association tables (Go maps keyed by node / node pair), insertion ordered -/

def tget {κ α : Type} [DecidableEq κ] (t : List (κ × α)) (k : κ) (dflt : α) : α :=
  match t with
  | [] => dflt
  | (k', v) :: r => if k' = k then v else tget r k dflt

/-- `m[k] = f(m[k])`, inserting `f dflt` when absent. -/
def tupd {κ α : Type} [DecidableEq κ] (t : List (κ × α)) (k : κ) (f : α → α) (dflt : α) : List (κ × α) :=
  match t with
  | [] => [(k, f dflt)]
  | (k', v) :: r => if k' = k then (k', f v) :: r else (k', v) :: tupd r k f dflt

def thas {κ α : Type} [DecidableEq κ] (t : List (κ × α)) (k : κ) : Bool :=
  match t with
  | [] => false
  | (k', _) :: r => if k' = k then true else thas r k

/-! ### graph state -/

/-- `Node.Flat/FlatDiv` and `Node.Cum/CumDiv`. -/
structure NodeAcc where
  flat : WD
  cum : WD
  deriving Repr, DecidableEq, Inhabited

/-- `Edge.Weight/WeightDiv`, `Edge.Residual`. -/
structure EdgeAcc where
  weight : WD
  residual : Bool
  deriving Repr, DecidableEq, Inhabited

def NodeAcc.zero : NodeAcc := ⟨0, 0⟩
def EdgeAcc.zero : EdgeAcc := ⟨0, false⟩

structure GState (κ : Type) where
  nodes : List (κ × NodeAcc)
  edges : List ((κ × κ) × EdgeAcc)     -- key (src, dest) = (caller, callee)

variable {κ : Type} [DecidableEq κ]

def GState.empty : GState κ := ⟨[], []⟩

/-- `n.addSample(dw, w, …, flat=false)` -/
def GState.addCum (g : GState κ) (n : κ) (v : WD) : GState κ :=
  { g with nodes := tupd g.nodes n (fun a => { a with cum := a.cum + v }) NodeAcc.zero }

/-- `n.addSample(dw, w, …, flat=true)` -/
def GState.addFlat (g : GState κ) (n : κ) (v : WD) : GState κ :=
  { g with nodes := tupd g.nodes n (fun a => { a with flat := a.flat + v }) NodeAcc.zero }

/-- `parent.AddToEdgeDiv(n, dw, w, residual, _)`: creates the edge or adds to it; the residual
mark is sticky. -/
def GState.addEdge (g : GState κ) (p n : κ) (v : WD) (residual : Bool) : GState κ :=
  let upd : EdgeAcc → EdgeAcc := fun e => ⟨e.weight + v, e.residual || residual⟩
  { g with edges := tupd g.edges (p, n) upd EdgeAcc.zero }

def GState.cum (g : GState κ) (n : κ) : WD := (tget g.nodes n NodeAcc.zero).cum
def GState.flat (g : GState κ) (n : κ) : WD := (tget g.nodes n NodeAcc.zero).flat
def GState.weight (g : GState κ) (a b : κ) : WD := (tget g.edges (a, b) EdgeAcc.zero).weight
def GState.residual (g : GState κ) (a b : κ) : Bool := (tget g.edges (a, b) EdgeAcc.zero).residual
def GState.hasEdge (g : GState κ) (a b : κ) : Bool := thas g.edges (a, b)

/-- `selectNodesForGraph` (DropNegative off): nodes with `Cum == 0 && Flat == 0` are not listed. -/
def GState.shownNodes (g : GState κ) : List (κ × NodeAcc) :=
  g.nodes.filter fun (_, a) => !(a.cum.w == 0 && a.flat.w == 0)

/-! ### newGraph -/

/-- state of the per-sample loop (graph.go:339-373). -/
structure Inner (κ : Type) where
  g : GState κ
  seenN : List κ
  seenE : List (κ × κ)      -- nodePair{n, parent}
  parent : Option κ
  residual : Bool

/-- one iteration of the inner loop body for frame `n` (already mapped to its node; `kept n =
false` is the `n == nil` case of `locationMap` built with `KeptNodes`). -/
def stepFrame (kept : κ → Bool) (v : WD) (a : Inner κ) (n : κ) : Inner κ :=
  if !kept n then { a with residual := true }
  else
    let a1 : Inner κ :=
      if a.seenN.contains n then a
      else { a with seenN := n :: a.seenN, g := a.g.addCum n v }
    let a2 : Inner κ :=
      match a1.parent with
      | some p =>
        if !(a1.seenE.contains (n, p)) && n != p then
          { a1 with seenE := (n, p) :: a1.seenE, g := a1.g.addEdge p n v a1.residual }
        else a1
      | none => a1
    { a2 with parent := some n, residual := false }

/-- body of the loop over samples. -/
def sampleStep (kept : κ → Bool) (g : GState κ) (s : GSample κ) : GState κ :=
  if s.d == 0 && s.w == 0 then g
  else
    let r := s.frames.foldl (stepFrame kept s.wd) ⟨g, [], [], none, false⟩
    match r.parent with
    | some p => if !r.residual then r.g.addFlat p s.wd else r.g
    | none => r.g

/-- `newGraph` with `o.KeptNodes = kept` (`fun _ => true` for nil). -/
def newGraph (kept : κ → Bool) (ss : List (GSample κ)) : GState κ :=
  ss.foldl (sampleStep kept) GState.empty

def allKept : κ → Bool := fun _ => true

/-! ### newTree: nodes are keyed by their path from the root -/

structure TInner (κ : Type) where
  g : GState (List κ)
  parent : Option (List κ)

def treeStep (v : WD) (a : TInner κ) (f : κ) : TInner κ :=
  let n : List κ := match a.parent with
    | none => [f]
    | some p => p ++ [f]
  let g1 := a.g.addCum n v
  let g2 := match a.parent with
    | some p => g1.addEdge p n v false
    | none => g1
  { g := g2, parent := some n }

def treeSampleStep (g : GState (List κ)) (s : GSample κ) : GState (List κ) :=
  if s.d == 0 && s.w == 0 then g
  else
    let r := s.frames.foldl (treeStep s.wd) ⟨g, none⟩
    match r.parent with
    | some p => r.g.addFlat p s.wd
    | none => r.g

def newTree (ss : List (GSample κ)) : GState (List κ) :=
  ss.foldl treeSampleStep GState.empty

/-! ### report total (report.go computeTotal) -/

structure TotAcc where
  total : Int
  div : Int
  diffTotal : Int
  diffDiv : Int

def totalStep (a : TotAcc) (s : GSample κ) : TotAcc :=
  let v := if s.w < 0 then -s.w else s.w
  let a1 := { a with total := a.total + v, div := a.div + s.d }
  if s.base then { a1 with diffTotal := a1.diffTotal + v, diffDiv := a1.diffDiv + s.d } else a1

def computeTotalWD (ss : List (GSample κ)) : WD :=
  let a := ss.foldl totalStep ⟨0, 0, 0, 0⟩
  if a.diffTotal > 0 then ⟨a.diffTotal, a.diffDiv⟩ else ⟨a.total, a.div⟩

def computeTotal (ss : List (GSample κ)) : Int := (computeTotalWD ss).value

/-! ### from a profile to abstract samples -/

/-- graph.NodeInfo -/
structure NodeInfo where
  name : Str
  origName : Str
  address : Nat
  file : Str
  startLine : Int
  lineno : Int
  columnno : Int
  objfile : Str
  deriving Repr, DecidableEq, Inhabited

/-- the part of graph.Options that determines entry identity. -/
structure GOpts where
  objNames : Bool := false
  origFnNames : Bool := false
  deriving Repr

/-- `driver.aggregate` option decoding: granularity name → Aggregate's flags
(function, filename, linenumber, address); `none` = no aggregation at all
("addresses" with inlines). -/
inductive Granularity where
  | functions | filefunctions | files | lines | addresses
  deriving Repr, DecidableEq

structure AggFlags where
  inlineFrame : Bool
  function : Bool
  filename : Bool
  linenumber : Bool
  columnnumber : Bool
  address : Bool
  deriving Repr

def aggFlags (g : Granularity) (noInlines showColumns : Bool) : Option AggFlags :=
  let inl := !noInlines
  match g with
  | .functions => some ⟨inl, true, false, false, showColumns, false⟩
  | .filefunctions => some ⟨inl, true, true, false, showColumns, false⟩
  | .files => some ⟨inl, false, true, false, showColumns, false⟩
  | .lines => some ⟨inl, true, true, true, showColumns, false⟩
  | .addresses => if inl then none else some ⟨inl, true, true, true, showColumns, true⟩

/-- `Profile.Aggregate` (the parts that bear on entry identity: functions and locations). When the
function identity is dropped (`!function`) the name, the system name AND the start line go (the
start line is part of the identity of an entry without a name: /repo fix
"aggregate drops start line with function"). -/
def aggregate (p : Profile) (f : AggFlags) : Profile :=
  let fns := p.functions.map fun fn =>
    let fn := if !f.function then { fn with name := [], systemName := [], startLine := 0 } else fn
    if !f.filename then { fn with filename := [] } else fn
  let locs := p.locations.map fun l =>
    let lines := if !f.inlineFrame && l.lines.length > 1 then l.lines.drop (l.lines.length - 1) else l.lines
    let lines := if !f.linenumber then lines.map (fun ln => { ln with line := 0, column := 0 }) else lines
    let lines := if !f.columnnumber then lines.map (fun ln => { ln with column := 0 }) else lines
    { l with lines := lines, address := if !f.address then 0 else l.address }
  { p with functions := fns, locations := locs }

def aggregateG (p : Profile) (g : Granularity) (noInlines showColumns : Bool) : Profile :=
  match aggFlags g noInlines showColumns with
  | none => p
  | some f => aggregate p f

/-- `graph.nodeInfo`; `clean` is `filepath.Clean` (external, a parameter). A line whose function
id is 0 is Go's `line.Function == nil`; a dangling id is `none` (impossible for valid profiles). -/
def nodeInfo (clean : Str → Str) (p : Profile) (o : GOpts) (l : Location) (line : Line) (objfile : Str) :
    Option NodeInfo :=
  if line.functionID = 0 then
    some { name := [], origName := [], address := l.address, file := [], startLine := 0, lineno := 0,
           columnno := 0, objfile := objfile }
  else
    match p.findFunction line.functionID with
    | none => none
    | some fn =>
      let file := if fn.filename ≠ [] then clean fn.filename else []
      let orig := if o.origFnNames then fn.systemName else []
      let withObj := o.objNames || (fn.name = [] && orig = [])
      some { name := fn.name, origName := orig, address := l.address, file := file,
             startLine := if withObj then fn.startLine else 0,
             lineno := line.line, columnno := line.column,
             objfile := if withObj then objfile else [] }

def optAll {α β : Type} (f : α → Option β) : List α → Option (List β)
  | [] => some []
  | a :: r => match f a, optAll f r with
    | some b, some bs => some (b :: bs)
    | _, _ => none

/-- `CreateNodes` for one location: one node per line in `l.Line` order (leaf-most first); a
location without lines gives one address-only node. -/
def locNodes (clean : Str → Str) (p : Profile) (o : GOpts) (l : Location) : Option (List NodeInfo) :=
  let objfile : Str := match p.findMapping l.mappingID with
    | some m => m.file
    | none => []
  let lines := if l.lines.isEmpty then [({ functionID := 0, line := 0, column := 0 } : Line)] else l.lines
  optAll (fun ln => nodeInfo clean p o l ln objfile) lines

/-- the stack of a sample ROOT → LEAF: locations reversed, the lines of each location reversed. -/
def framesOf (clean : Str → Str) (p : Profile) (o : GOpts) (s : Sample) : Option (List NodeInfo) :=
  match optAll (fun id => match p.findLocation id with
      | none => none
      | some l => locNodes clean p o l) s.locationIDs with
  | none => none
  | some perLoc => some ((perLoc.map List.reverse).reverse.flatten)

/-- `Sample.DiffBaseSample`: some value of label "pprof::base" is "true". -/
def isBase (s : Sample) : Bool :=
  match s.label.lookup (Str.ofString "pprof::base") with
  | some vs => vs.contains (Str.ofString "true")
  | none => false

/-- the abstract samples of a profile for value index `vi` and (mean) divisor index 0. -/
def samplesOf (clean : Str → Str) (p : Profile) (o : GOpts) (vi : Nat) (mean : Bool) :
    Option (List (GSample NodeInfo)) :=
  optAll (fun s =>
    match framesOf clean p o s, s.values[vi]?, (if mean then s.values[0]? else some 0) with
    | some fs, some w, some d => some { frames := fs, w := w, d := d, base := isBase s }
    | _, _, _ => none) p.samples

/-! ### `SampleIndexByName` (profile/index.go) -/

def isDigit (b : UInt8) : Bool := 48 ≤ b && b ≤ 57

def parseDigits : List UInt8 → Nat → Option Nat
  | [], acc => some acc
  | b :: r, acc => if isDigit b then parseDigits r (acc * 10 + (b.toNat - 48)) else none

/-- `strconv.Atoi` on 64-bit: optional sign, at least one decimal digit, in int64 range. -/
def atoi (s : Str) : Option Int :=
  let (neg, ds) := match s with
    | 43 :: r => (false, r)
    | 45 :: r => (true, r)
    | _ => (false, s)
  if ds.isEmpty then none else
  match parseDigits ds 0 with
  | none => none
  | some n =>
    if neg then (if n ≤ 2 ^ 63 then some (-(n : Int)) else none)
    else (if n < 2 ^ 63 then some (n : Int) else none)

def stripPrefix (pre s : Str) : Str := if pre.isPrefixOf s then s.drop pre.length else s

def findIdx {α : Type} (f : α → Bool) : List α → Nat → Option Nat
  | [], _ => none
  | a :: r, i => if f a then some i else findIdx f r (i + 1)

/-- result: index or error. Requires `sampleType ≠ []` (checked by `sampleFormat` before). -/
def sampleIndexByName (p : Profile) (si : Str) : Option Nat :=
  let n := p.sampleType.length
  if si = [] then
    match (if p.defaultSampleType ≠ [] then findIdx (fun t => t.typ == p.defaultSampleType) p.sampleType 0 else none) with
    | some i => some i
    | none => if n = 0 then none else some (n - 1)
  else
    match atoi si with
    | some i => if i < 0 ∨ i ≥ n then none else some i.toNat
    | none =>
      let noInuse := stripPrefix (Str.ofString "inuse_") si
      findIdx (fun t => t.typ == si || t.typ == noInuse) p.sampleType 0

end PV.Graph

/-! ### tagroot / tagleaf pseudo frames (internal/driver/tagroot.go `addLabelNodes`)

String labels only: numeric label values are rendered by `measurement.ScaledLabel` (external); the
harness uses tag keys that carry string labels only. -/
namespace PV.Graph

structure TagSt where
  p : Profile
  tbl : List ((Str × Str) × Nat)     -- (functionName, fileName) ↦ location id
  nextLoc : Nat
  nextFn : Nat

def maxId (ids : List Nat) : Nat := ids.foldl max 0

def internLoc (st : TagSt) (fname file : Str) : TagSt × Nat :=
  match st.tbl.lookup (fname, file) with
  | some id => (st, id)
  | none =>
    let fn : Function := { id := st.nextFn, name := fname, systemName := [], filename := file, startLine := 0 }
    let loc : Location := { id := st.nextLoc, mappingID := 0, address := 0,
                            lines := [{ functionID := st.nextFn, line := 0, column := 0 }], isFolded := false }
    ({ p := { st.p with functions := st.p.functions ++ [fn], locations := st.p.locations ++ [loc] },
       tbl := st.tbl ++ [((fname, file), st.nextLoc)], nextLoc := st.nextLoc + 1, nextFn := st.nextFn + 1 },
     st.nextLoc)

def joinComma : List Str → Str
  | [] => []
  | [a] => a
  | a :: r => a ++ (44 :: joinComma r)

/-- `formatLabelValues` restricted to string labels. -/
def labelValues (s : Sample) (k : Str) : List Str :=
  match s.label.lookup k with
  | some vs => vs
  | none => []

/-- `makeLabelLocs`: one pseudo location per key, LAST key first. -/
def makeLabelLocs (st : TagSt) (s : Sample) (keys : List Str) : TagSt × List Nat :=
  keys.reverse.foldl (fun (acc : TagSt × List Nat) k =>
    let (st', id) := internLoc acc.1 (joinComma (labelValues s k)) k
    (st', acc.2 ++ [id])) (st, [])

def tagSample (rootKeys leafKeys : List Str) (acc : TagSt × List Sample) (s : Sample) : TagSt × List Sample :=
  let (st1, roots) := makeLabelLocs acc.1 s rootKeys
  let (st2, leaves) := makeLabelLocs st1 s leafKeys
  if leaves.length + roots.length = 0 then (st2, acc.2 ++ [s])
  else (st2, acc.2 ++ [{ s with locationIDs := leaves ++ s.locationIDs ++ roots }])

def addLabelNodes (p : Profile) (rootKeys leafKeys : List Str) : Profile :=
  let st0 : TagSt := { p := p, tbl := [], nextLoc := maxId (p.locations.map (·.id)) + 1,
                       nextFn := maxId (p.functions.map (·.id)) + 1 }
  let (st, samples) := p.samples.foldl (tagSample rootKeys leafKeys) (st0, [])
  { st.p with samples := samples }

end PV.Graph
