import PprofVerif.Base.Basic
import PprofVerif.Gen.Units
/-!
# Model of `internal/measurement` (property C15)

Hand-mirrored from `internal/measurement/measurement.go` over the unit table that the extractor
regenerates from `measurement.UnitTypes` on every run (`Gen/Units.lean`).  Go's `float64`
arithmetic is replaced by EXACT rational arithmetic (`Q` = numerator/denominator compared by
cross-multiplication); what float rounding adds is covered by the stated tolerance of the
correspondence check, not by the theorems.  Core Lean only.

The model is of the REPAIRED code (fixes/C15-sniffunit-mus.patch, /repo commit 8458820: `sniffUnit`
tries the exact lower-cased alias before stripping a plural "s"; fixes/C15-autoscale-minint64.patch,
/repo commit 76c348f: `autoScale` compares the magnitude `|value|`;
fixes/C15-canonical-name-is-a-unit-name.patch: `sniffUnit` first matches the canonical name exactly).  `strings.ToLower` is modelled as ASCII lower-casing: the
model is only asked about strings on which the two agree (checked by the harness).
-/
namespace PV.Measure
open PV

/-! ## exact rationals -/

/-- `num/den`; meaningful when `0 < den` (`den = 0` only arises from a division by zero and is
never repaired into a value). -/
structure Q where
  num : Int
  den : Nat
  deriving DecidableEq, Repr, Inhabited

namespace Q
def zero : Q := ⟨0, 1⟩
def one : Q := ⟨1, 1⟩
def ofInt (i : Int) : Q := ⟨i, 1⟩
def neg (a : Q) : Q := ⟨-a.num, a.den⟩
def abs (a : Q) : Q := ⟨(a.num.natAbs : Int), a.den⟩
def mul (a b : Q) : Q := ⟨a.num * b.num, a.den * b.den⟩
/-- `a / b`; for `b = 0` the result has denominator 0 -/
def div (a b : Q) : Q := ⟨a.num * b.den * b.num.sign, a.den * b.num.natAbs⟩
def Wf (a : Q) : Prop := 0 < a.den
/-- equality of the denoted rationals -/
def eqv (a b : Q) : Prop := a.num * b.den = b.num * a.den
def le (a b : Q) : Prop := a.num * b.den ≤ b.num * a.den
def lt (a b : Q) : Prop := a.num * b.den < b.num * a.den
instance (a b : Q) : Decidable (eqv a b) := by unfold eqv; infer_instance
instance (a b : Q) : Decidable (le a b) := by unfold le; infer_instance
instance (a b : Q) : Decidable (lt a b) := by unfold lt; infer_instance
instance (a : Q) : Decidable (Wf a) := by unfold Wf; infer_instance
def leB (a b : Q) : Bool := decide (le a b)
def ltB (a b : Q) : Bool := decide (lt a b)
def toTok (a : Q) : String := toString a.num ++ " " ++ toString a.den
end Q

/-! ## table -/

abbrev MUnit := Gen.Units.RawUnit
abbrev Family := Gen.Units.RawFamily
abbrev Table := List Family

/-- the table regenerated from /repo on every run -/
def table : Table := Gen.Units.unitTypes

def _root_.PV.Gen.Units.RawUnit.factor (u : MUnit) : Q := ⟨u.fnum, u.fden⟩

/-! ## strings -/

/-- `strings.ToLower` on the strings the model is asked about (ASCII letters only change) -/
def asciiLower (s : Str) : Str := s.map fun b => if 65 ≤ b ∧ b ≤ 90 then b + 32 else b

/-- `strings.TrimSuffix(s, "s")` -/
def trimS : Str → Str
  | [] => []
  | c :: cs =>
    match cs with
    | [] => if c = 115 then [] else [c]
    | _ :: _ => c :: trimS cs

def sAuto : Str := [97, 117, 116, 111]
def sMinimum : Str := [109, 105, 110, 105, 109, 117, 109]
def sCount : Str := [99, 111, 117, 110, 116]
def sSample : Str := [115, 97, 109, 112, 108, 101]
def sUnit : Str := [117, 110, 105, 116]

/-- `toUnitStr == "minimum" || toUnitStr == "auto"` -/
def isAuto (s : Str) : Bool := s == sMinimum || s == sAuto

/-! ## sniffing -/

/-- `UnitType.findByAlias` -/
def findByAlias (F : Family) (a : Str) : Option MUnit :=
  F.units.find? fun u => u.aliases.contains a

/-- the strings that can lead `sniffUnit` to a unit, lower-cased: its canonical (printed) name and
its aliases -/
def unitNames (u : MUnit) : List Str := asciiLower u.name :: u.aliases

/-- `UnitType.sniffUnit` (repaired: the canonical name exactly as printed — what a report hands
back as its target unit — then the exact lower-cased alias, then without a plural "s") -/
def sniffUnit (F : Family) (s : Str) : Option MUnit :=
  match F.units.find? fun u => u.name == s with
  | some u => some u
  | none =>
    let l := asciiLower s
    match findByAlias F l with
    | some u => some u
    | none => if 2 < l.length then findByAlias F (trimS l) else none

/-! ## conversion -/

/-- the loop of `UnitType.autoScale`: the accumulator is `(f, unit)`, initially `(0, "")` -/
def autoStep (m : Q) (acc : Q × Str) (u : MUnit) : Q × Str :=
  if Q.leB acc.1 u.factor && Q.leB Q.one (m.abs.div u.factor) then (u.factor, u.name) else acc

/-- `UnitType.autoScale` (repaired: the test is on `|value|`) -/
def autoScale (F : Family) (m : Q) : Option (Q × Str) :=
  let acc := F.units.foldl (autoStep m) (Q.zero, [])
  if acc.1.num = 0 then none else some (m.div acc.1, acc.2)

/-- `UnitType.convertUnit`; `none` is Go's `ok == false` -/
def convertUnit (F : Family) (v : Int) (frm to : Str) : Option (Q × Str) :=
  match sniffUnit F frm with
  | none => none
  | some fu =>
    let m := (Q.ofInt v).mul fu.factor
    if isAuto to then
      match autoScale F m with
      | some r => some r
      | none => some (m.div F.default.factor, F.default.name)
    else
      match sniffUnit F to with
      | none => some (m.div F.default.factor, F.default.name)
      | some tu => some (m.div tu.factor, tu.name)

def minInt64 : Int := -9223372036854775808
def maxInt64 : Int := 9223372036854775807
def InI64 (v : Int) : Prop := minInt64 ≤ v ∧ v ≤ maxInt64
instance (v : Int) : Decidable (InI64 v) := by unfold InI64; infer_instance

/-- Go's `-value` on an int64 -/
def negI64 (v : Int) : Int := if v = minInt64 then minInt64 else -v

/-- the "uninteresting" target units of `Scale`'s final switch -/
def skipUnits : List Str := [sCount, sSample, sUnit, sMinimum, sAuto]

/-- `Scale` after the sign guard -/
def scaleCore (T : Table) (v : Int) (frm to : Str) : Q × Str :=
  match T.findSome? fun F => convertUnit F v frm to with
  | some r => r
  | none => (Q.ofInt v, if skipUnits.contains to then [] else to)

/-- `measurement.Scale` (with the `value < 0 && -value > 0` guard that stops MinInt64 recursing) -/
def scale (T : Table) (v : Int) (frm to : Str) : Q × Str :=
  if v < 0 ∧ 0 < negI64 v then
    let r := scaleCore T (negI64 v) frm to
    (r.1.neg, r.2)
  else scaleCore T v frm to

/-! ## labels and percentages (the number that is printed; the digits are `fmt`'s business) -/

/-- round to two decimals, half away from zero (`%.2f` up to the tie rule) -/
def round2 (q : Q) : Q :=
  if q.den = 0 then q
  else ⟨q.num.sign * (((200 * q.num.natAbs + q.den) / (2 * q.den) : Nat) : Int), 100⟩

/-- `measurement.ScaledLabel`: the printed number and the unit suffix; "0" has no unit -/
def label (T : Table) (v : Int) (frm to : Str) : Q × Str :=
  let r := scale T v frm to
  let x := round2 r.1
  if x.num = 0 then (Q.zero, []) else (x, r.2)

/-- `int64(float64(v) * r)` of `report.New`'s value formatter (`-divide_by`: r = 1/divide_by):
the product truncated toward zero.  `r.den = 0` (no such ratio exists) leaves the value alone. -/
def scaleByRatio (v : Int) (r : Q) : Int :=
  if r.den = 0 then v else (v * r.num).sign * (((v * r.num).natAbs / r.den : Nat) : Int)

/-- the value formatter of a report (`report.New`): the ratio is applied to the sample value
FIRST (`if r > 0 && r != 1`), the result is labelled — so an automatic unit is selected for the
value that is actually printed -/
def formatValue (T : Table) (r : Q) (v : Int) (frm to : Str) : Q × Str :=
  label T (if Q.ltB Q.zero r && !decide (Q.eqv r Q.one) then scaleByRatio v r else v) frm to

/-- the loop of `Report.selectOutputUnit`: the smallest non-zero magnitude among the nodes, a node
counting with `|flat|`, or with `|cum|` when its flat value is 0; 0 when there is none -/
def minStep (m : Nat) (n : Int × Int) : Nat :=
  let nm := if n.1.natAbs = 0 then n.2.natAbs else n.1.natAbs
  if 0 < nm ∧ (m = 0 ∨ nm < m) then nm else m

def minMagnitude (nodes : List (Int × Int)) : Nat := nodes.foldl minStep 0

/-- `Report.selectOutputUnit` for `OutputUnit == "minimum"` and a non-empty graph: ONE unit for the
whole report, taken from the smallest non-zero magnitude (scaled up by 100 when that differs from
the unit of the total by more than that, except for callgrind), the sample unit when the
automatic choice is empty.  `nodes` are the (flat, cum) values of the graph's nodes, `total` the
report's total (Σ|v|), `r` the `-divide_by` ratio. -/
def selectOutputUnit (T : Table) (nodes : List (Int × Int)) (total : Int) (r : Q) (sampleUnit : Str)
    (callgrind : Bool) : Str :=
  let min0 : Int := minMagnitude nodes
  let min1 := if min0 = 0 then total else min0
  let active := Q.ltB Q.zero r && !decide (Q.eqv r Q.one)
  let mn := if active then scaleByRatio min1 r else min1
  let mx := if active then scaleByRatio total r else total
  let minUnit := (scale T mn sampleUnit sMinimum).2
  let maxUnit := (scale T mx sampleUnit sMinimum).2
  let unit := if minUnit ≠ maxUnit ∧ mn * 100 < mx ∧ callgrind = false
    then (scale T (100 * mn) sampleUnit sMinimum).2 else minUnit
  if unit ≠ [] then unit else sampleUnit

inductive PctClass where
  | hundred  -- "  100%"
  | fixed    -- "%5.2f%%"
  | short    -- "%5.2g%%"
  deriving DecidableEq, Repr

/-- the ratio `measurement.Percentage` prints -/
def pctRatio (v t : Int) : Q :=
  if t = 0 then Q.zero else (((Q.ofInt v).div (Q.ofInt t)).abs).mul (Q.ofInt 100)

def pctClass (r : Q) : PctClass :=
  if Q.leB ⟨9995, 100⟩ r.abs && Q.leB r.abs ⟨10005, 100⟩ then .hundred
  else if Q.leB Q.one r.abs then .fixed else .short

def percentage (v t : Int) : Q × PctClass := (pctRatio v t, pctClass (pctRatio v t))

/-! ## harmonising value types -/

/-- `profile.ValueType` (non-nil) -/
structure VT where
  typ : Str
  unit : Str
  deriving DecidableEq, Repr

def sniffsBoth (T : Table) (a b : Str) : Bool :=
  T.any fun F => (sniffUnit F a).isSome && (sniffUnit F b).isSome

/-- `compatibleValueTypes` for non-nil arguments -/
def compatible (T : Table) (a b : VT) : Bool :=
  trimS a.typ == trimS b.typ && (a.unit == b.unit || sniffsBoth T a.unit b.unit)

/-- one iteration of the loop of `CommonValueType` -/
def commonStep (T : Table) (m t : VT) : Outcome VT :=
  if !compatible T m t then .err "incompatible types"
  else if Q.ltB (scale T 1 t.unit m.unit).1 Q.one then .ok t else .ok m

def commonFold (T : Table) : VT → List VT → Outcome VT
  | m, [] => .ok m
  | m, t :: ts =>
    match commonStep T m t with
    | .ok m' => commonFold T m' ts
    | .err e => .err e
    | .panic s => .panic s

/-- `CommonValueType` on non-nil value types; `ok none` is Go's `nil, nil` -/
def commonValueType (T : Table) : List VT → Outcome (Option VT)
  | [] => .ok none
  | [_] => .ok none
  | t0 :: t1 :: rest =>
    match commonFold T t0 (t1 :: rest) with
    | .ok m => .ok (some m)
    | .err e => .err e
    | .panic s => .panic s

/-- the part of a profile `ScaleProfiles` looks at (every sample has one value per sample type) -/
structure MProf where
  periodType : Option VT
  period : Int
  sampleTypes : List VT
  samples : List (List Int)
  deriving Repr

/-- result for one profile, before `int64(...)`/`math.Round`: exact rationals -/
structure MProfOut where
  periodType : Option VT
  period : Q
  sampleTypes : List VT
  ratios : List Q
  samples : List (List Q)
  deriving Repr

/-- the i-th sample type of every profile (all profiles have more than i of them when this is used) -/
def column (ps : List MProf) (i : Nat) : List VT := ps.filterMap fun p => p.sampleTypes[i]?

def commons (T : Table) (ps : List MProf) : List Nat → Outcome (List (Option VT))
  | [] => .ok []
  | i :: is =>
    match commonValueType T (column ps i) with
    | .ok c =>
      match commons T ps is with
      | .ok cs => .ok (c :: cs)
      | .err e => .err e
      | .panic s => .panic s
    | .err e => .err e
    | .panic s => .panic s

/-- new unit and ratio of one sample type given the common type of its column -/
def scaleType (T : Table) (st : VT) (c : Option VT) : VT × Q :=
  match c with
  | none => (st, Q.one)
  | some c => ({ st with unit := c.unit }, (scale T 1 st.unit c.unit).1)

def scaleOne (T : Table) (pc : Option VT) (cs : List (Option VT)) (p : MProf) : MProfOut :=
  let pp : Option VT × Q :=
    match p.periodType, pc with
    | some pt, some c => (some { pt with unit := c.unit }, (scale T p.period pt.unit c.unit).1)
    | pt, _ => (pt, Q.ofInt p.period)
  let tr := List.zipWith (scaleType T) p.sampleTypes cs
  let ratios := tr.map (·.2)
  { periodType := pp.1, period := pp.2, sampleTypes := tr.map (·.1), ratios := ratios,
    samples := p.samples.map fun s => List.zipWith (fun v r => (Q.ofInt v).mul r) s ratios }

/-- `measurement.ScaleProfiles` in exact arithmetic -/
def scaleProfiles (T : Table) (ps : List MProf) : Outcome (List MProfOut) :=
  match ps with
  | [] => .ok []
  | p0 :: rest =>
    match commonValueType T (ps.filterMap (·.periodType)) with
    | .err e => .err e
    | .panic s => .panic s
    | .ok pc =>
      if rest.any fun p => p.sampleTypes.length != p0.sampleTypes.length then
        .err "inconsistent samples type count"
      else
        match commons T ps (List.range p0.sampleTypes.length) with
        | .err e => .err e
        | .panic s => .panic s
        | .ok cs => .ok (ps.map (scaleOne T pc cs))

end PV.Measure
