import PprofVerif.Base.Basic
/-!
# Model of the multi-source fetch of `internal/driver/fetch.go` (property C16)

Core Lean only (linked into `pvdrv-C16`).

Mirrors, function for function:

* `concurrentGrab`  — one goroutine per source; goroutine `i` stores `(p, err)` into its OWN slot
  `sources[i]`; `wg.Wait()` is the barrier; afterwards a loop over `i = 0 … len-1` prints one error
  line per slot holding an error and appends the other slots' profiles to `profiles`, which are
  handed to `combineProfiles`.  Here: `Slots` (a list of `Option`, `none` = not yet written),
  completion events `complete`, a schedule `π : List Nat` (the order in which the goroutines
  finish — chosen by the Go scheduler, so the theorems quantify over ALL of them), `runSchedule`,
  the index-order `scanFrom`, `concurrentGrab`.
* `chunkedGrab`     — `for start := 0; start < len(sources); start += chunkSize` with
  `end = min(start+chunkSize, len)`; chunk results are folded into an accumulator with
  `combineProfiles([p, chunkP])`; `count` is *assigned* for the first non-empty chunk and *added*
  afterwards (as in the Go code).  Here `chunkLoop`/`chunkedGrab` for an arbitrary chunk size `c`
  (the literal 128 is extracted into `Gen/FetchConsts.lean`).
* `grabSourcesAndBases` — two groups, fails iff `countsrc == 0`, or `countbase == 0` with bases
  requested, or a merge failed.

What is NOT modelled here (parameters / trusted):
* `combineProfiles` (= `CompatibilizeSampleTypes`, `ScaleProfiles`, `profile.Merge`) is the
  parameter `merge : List α → Outcome α`; what is assumed of it is the explicit hypothesis
  `MergeSpec` (C03's subject: `abs (merge ps) = Σ abs p`, closed under a compatibility predicate,
  with an associative sum).
* `grabProfile` (Fetcher plug-in, file/HTTP fetch, `CheckValid`) is the outcome function
  `outs : Nat → Res ε α`  (index ↦ profile or error).
* the Go scheduler / `sync.WaitGroup`: the barrier is assumed to be a barrier — a schedule that
  does NOT contain every index leaves a slot unwritten and the model then panics exactly like the
  Go code would (nil profile handed to `combineProfiles`).
* the "Fetched k … profiles out of n" summary lines, `save`/`remote`, mapping sources.
-/
namespace PV.Fetch

/-- result of `grabProfile` for one source -/
inductive Res (ε α : Type) where
  | ok   : α → Res ε α
  | fail : ε → Res ε α
  deriving Repr, DecidableEq

variable {ε α : Type}

/-- the `p`/`err` fields of `sources[0..len)`; `none` = goroutine has not stored its result yet
(in Go: both fields still nil) -/
abbrev Slots (ε α : Type) := List (Option (Res ε α))

def initSlots (len : Nat) : Slots ε α := List.replicate len none

/-- completion event of goroutine `i`: `s.p, …, s.err = grabProfile(…)` on `&sources[i]` -/
def complete (outs : Nat → Res ε α) (s : Slots ε α) (i : Nat) : Slots ε α :=
  s.set i (some (outs i))

/-- the goroutines finish in the order `π` -/
def runSchedule (outs : Nat → Res ε α) (π : List Nat) (s : Slots ε α) : Slots ε α :=
  π.foldl (complete outs) s

/-- what a piece of the fetch code did: the error lines it printed through `ui.PrintErr`
(source index, error) in the order printed, and its result -/
structure Run (ε γ : Type) where
  printed : List (Nat × ε)
  res     : Outcome γ

/-- the scan after the barrier: `for i := range sources` — error ⇒ print and continue,
otherwise append to `profiles`. `off` is the command-line index of `sources[0]`. -/
def scanFrom (off : Nat) : Slots ε α → Run ε (List (Nat × α))
  | [] => ⟨[], .ok []⟩
  | none :: r =>
    -- unwritten slot: err == nil and p == nil, a nil profile reaches combineProfiles
    ⟨(scanFrom (off + 1) r).printed, .panic "concurrentGrab: nil profile (slot read before its goroutine finished)"⟩
  | some (.fail e) :: r =>
    let t := scanFrom (off + 1) r
    ⟨(off, e) :: t.printed, t.res⟩
  | some (.ok p) :: r =>
    let t := scanFrom (off + 1) r
    ⟨t.printed, match t.res with
      | .ok l => .ok ((off, p) :: l)
      | .err e => .err e
      | .panic s => .panic s⟩

/-- result of `concurrentGrab`/`chunkedGrab`: merged profile (nil when nothing was fetched),
`count`, and — ghost field for the correspondence — the command-line indices of the profiles
that went into `p`, in the order they were merged -/
structure Grab (α : Type) where
  p     : Option α
  count : Nat
  idx   : List Nat
  deriving DecidableEq, Repr

/-- the tail of `concurrentGrab`: nothing collected ⇒ `(nil, 0)`, otherwise
`combineProfiles(profiles)` and `len(profiles)` -/
def mergeCollected (merge : List α → Outcome α) : List (Nat × α) → Outcome (Grab α)
  | [] => .ok ⟨none, 0, []⟩
  | o :: os =>
    match merge ((o :: os).map (·.2)) with
    | .ok p => .ok ⟨some p, (o :: os).length, (o :: os).map (·.1)⟩
    | .err e => .err e
    | .panic s => .panic s

/-- `concurrentGrab(sources[off : off+len])` under completion order `π` (indices local to the chunk) -/
def concurrentGrab (merge : List α → Outcome α) (outs : Nat → Res ε α) (off len : Nat) (π : List Nat) :
    Run ε (Grab α) :=
  let sc := scanFrom off (runSchedule (fun i => outs (off + i)) π (initSlots len))
  ⟨sc.printed, match sc.res with
    | .ok l => mergeCollected merge l
    | .err e => .err e
    | .panic s => .panic s⟩

/-- the part of a group-wide completion order that concerns chunk `[start, e)`, re-based -/
def chunkSched (π : List Nat) (start e : Nat) : List Nat :=
  (π.filter (fun i => decide (start ≤ i) && decide (i < e))).map (· - start)

/-- loop of `chunkedGrab`; `fuel` bounds the iterations (n suffices when `c ≥ 1`; with `c = 0` the
Go loop never terminates, which the model reports as a panic) -/
def chunkLoop (merge : List α → Outcome α) (outs : Nat → Res ε α) (c n : Nat) (π : List Nat) :
    Nat → Nat → List (Nat × ε) → Grab α → Run ε (Grab α)
  | 0, start, pr, acc =>
    if start < n then ⟨pr, .panic "chunkedGrab: no progress (chunk size 0)"⟩ else ⟨pr, .ok acc⟩
  | fuel + 1, start, pr, acc =>
    if start < n then
      let e := if start + c > n then n else start + c
      let g := concurrentGrab merge outs start (e - start) (chunkSched π start e)
      match g.res with
      | .err x => ⟨pr ++ g.printed, .err x⟩
      | .panic x => ⟨pr ++ g.printed, .panic x⟩
      | .ok ch =>
        match ch.p, acc.p with
        | none, _ => chunkLoop merge outs c n π fuel (start + c) (pr ++ g.printed) acc
        | some q, none =>
          chunkLoop merge outs c n π fuel (start + c) (pr ++ g.printed) ⟨some q, ch.count, ch.idx⟩
        | some q, some p =>
          match merge [p, q] with
          | .ok r =>
            chunkLoop merge outs c n π fuel (start + c) (pr ++ g.printed)
              ⟨some r, acc.count + ch.count, acc.idx ++ ch.idx⟩
          | .err x => ⟨pr ++ g.printed, .err x⟩
          | .panic x => ⟨pr ++ g.printed, .panic x⟩
    else ⟨pr, .ok acc⟩

/-- `chunkedGrab(sources[0:n])` with chunk size `c` under the group-wide completion order `π` -/
def chunkedGrab (merge : List α → Outcome α) (outs : Nat → Res ε α) (c n : Nat) (π : List Nat) :
    Run ε (Grab α) :=
  chunkLoop merge outs c n π n 0 [] ⟨none, 0, []⟩

/-- what `grabSourcesAndBases` hands to `fetchProfiles` -/
structure Both (α : Type) where
  src     : Option α
  base    : Option α
  srcIdx  : List Nat
  baseIdx : List Nat
  deriving DecidableEq, Repr

/-- outcome of `grabSourcesAndBases`: the error lines of the two groups (they are printed by two
concurrent goroutines, so only the per-group order is defined) and the result -/
structure BothRun (ε α : Type) where
  srcPrinted  : List (Nat × ε)
  basePrinted : List (Nat × ε)
  res         : Outcome (Both α)

def grabSourcesAndBases (merge : List α → Outcome α) (c : Nat)
    (souts : Nat → Res ε α) (n : Nat) (π : List Nat)
    (bouts : Nat → Res ε α) (m : Nat) (σ : List Nat) : BothRun ε α :=
  let s := chunkedGrab merge souts c n π
  let b := chunkedGrab merge bouts c m σ
  ⟨s.printed, b.printed,
    match s.res, b.res with
    | .panic x, _ => .panic x
    | _, .panic x => .panic x
    | .err x, _ => .err ("problem fetching source profiles: " ++ x)
    | _, .err x => .err ("problem fetching base profiles: " ++ x)
    | .ok gs, .ok gb =>
      if gs.count = 0 then .err "failed to fetch any source profiles"
      else if gb.count = 0 ∧ 0 < m then .err "failed to fetch any base profiles"
      else .ok ⟨gs.p, gb.p, gs.idx, gb.idx⟩⟩

/-! ## Specification vocabulary (what the theorems in `Props/C16.lean` say the above computes) -/

def okAt (outs : Nat → Res ε α) (i : Nat) : Option (Nat × α) :=
  match outs i with
  | .ok p => some (i, p)
  | .fail _ => none

def failAt (outs : Nat → Res ε α) (i : Nat) : Option (Nat × ε) :=
  match outs i with
  | .ok _ => none
  | .fail e => some (i, e)

def Res.isFail : Res ε α → Bool
  | .ok _ => false
  | .fail _ => true

def Res.isOk : Res ε α → Bool
  | .ok _ => true
  | .fail _ => false

/-- the sources of `[off, off+len)` that could be fetched, in command-line order -/
def successes (outs : Nat → Res ε α) (off len : Nat) : List (Nat × α) :=
  (List.range' off len).filterMap (okAt outs)

/-- the sources of `[off, off+len)` that failed, in command-line order -/
def failures (outs : Nat → Res ε α) (off len : Nat) : List (Nat × ε) :=
  (List.range' off len).filterMap (failAt outs)

/-- a schedule is complete for `len` goroutines when every one of them finishes (the barrier) -/
def Complete (π : List Nat) (len : Nat) : Prop := ∀ i, i < len → i ∈ π

/-- sum of a list on the abstraction; `none` for the empty list (there is no zero profile) -/
def absSum {β : Type} (add : β → β → β) : List β → Option β
  | [] => none
  | x :: xs => some (xs.foldl add x)

/-- What C16 assumes of `combineProfiles` (C03's theorem `merge_conserves` + associativity of the
sum of weight functions): on non-empty lists of `Good` (valid, mutually compatible) profiles it
succeeds, stays `Good`, and its abstraction is the left-to-right sum of the abstractions. -/
structure MergeSpec {β : Type} (merge : List α → Outcome α) (Good : α → Prop) (abs : α → β)
    (add : β → β → β) : Prop where
  assoc : ∀ a b c, add (add a b) c = add a (add b c)
  merge_ok : ∀ x xs, (∀ y, y ∈ x :: xs → Good y) →
    ∃ r, merge (x :: xs) = .ok r ∧ Good r ∧ abs r = (xs.map abs).foldl add (abs x)

/-- `acc`/`pr` describe exactly the sources `[0, k)`: one printed line per failure, in index
order; the collected indices are the successes in index order; `count` is their number; the
merged profile is `Good` and, on the abstraction, the left-to-right sum of the successes
(absent iff there is none). -/
structure GroupSpec {β : Type} (Good : α → Prop) (abs : α → β) (add : β → β → β)
    (outs : Nat → Res ε α) (k : Nat) (pr : List (Nat × ε)) (acc : Grab α) : Prop where
  printed : pr = failures outs 0 k
  idx     : acc.idx = (successes outs 0 k).map (·.1)
  count   : acc.count = (successes outs 0 k).length
  good    : ∀ p, acc.p = some p → Good p
  abs_eq  : acc.p.map abs = absSum add ((successes outs 0 k).map (fun x => abs x.2))

/-! ## Per-source outcome of URL / file / plug-in sources (the scheme / trust table)

`grabProfile` → `fetch` → `fetchURL` → the HTTP transport (internal/transport): whether ONE source
can be fetched is decided by that source alone — its scheme, whether the server's certificate
chains to a root the client trusts (system roots, or the `-tls_ca` pool when given), and whether
what is served / stored / returned is a valid profile.  In particular the `https+insecure`
scheme switches certificate verification off for THAT request only.  Nothing here mentions other
sources or time: the outcome function handed to `concurrentGrab` is a function of the index, which
is exactly what the order-independence theorems quantify over. -/

inductive Scheme where
  | plugin         -- the Fetcher plug-in answers itself
  | file
  | http
  | https
  | httpsInsecure
  deriving Repr, DecidableEq

structure SrcDesc where
  scheme      : Scheme
  certTrusted : Bool   -- server certificate chains to a trusted root (only matters for https)
  bodyOk      : Bool   -- a valid profile is served / stored / returned (status 200, parses, CheckValid)
  deriving Repr, DecidableEq

/-- the trust table -/
def SrcDesc.fetchable (d : SrcDesc) : Bool :=
  d.bodyOk && (match d.scheme with
    | .https => d.certTrusted
    | _ => true)

/-- outcome function of a described source list: source `i` yields the one-element "profile"
`[tag + i]` iff its own description is fetchable -/
def outsOfDescs (tag : Nat) (ds : List SrcDesc) (i : Nat) : Res Unit (List Nat) :=
  match ds[i]? with
  | some d => if d.fetchable then .ok [tag + i] else .fail ()
  | none => .fail ()

/-! ## Locating a mapping's local binary (`locateBinaries`, run by every fetch on its OWN profile)

Names and build ids are numbers here (`0` = no build id / directly under the search path).  A tree
entry `(dir, name, id)` is the file `<dir>/<name>` whose object file reports build id `id`.  The
result depends on the mapping and the tree only — not on other sources, not on time — so it is
part of the per-source outcome `outs i`.  (The harness generates trees in which at most one entry
matches, so pprof's search ORDER among several matching files is not part of this spec.) -/
def locate (tree : List (Nat × Nat × Nat)) (name buildID : Nat) : Option Nat :=
  tree.findIdx? (fun e =>
    (decide (buildID ≠ 0) && decide (e.1 = buildID) && decide (e.2.2 = buildID)) ||
    (decide (e.1 = 0) && decide (e.2.1 = name) && (decide (buildID = 0) || decide (e.2.2 = buildID))))

/-! ## Units: the per-source outcome carries the unit of its sample type

A source reports a value `v` in a unit with integer factor `f` (ns 1, us 10³, …; bytes 1, kB 2¹⁰, …).
`combineProfiles` converts everything it merges to the finest unit present; the merged value of a
stack is `unitSum`: the sum of the successful sources' values, each converted to the smallest
factor among them.  It depends on the multiset of `(factor, value)` pairs only. -/

def minFactor : List (Nat × Nat) → Option Nat
  | [] => none
  | x :: xs => match minFactor xs with
    | none => some x.1
    | some m => some (min x.1 m)

def convertedSum (m : Nat) : List (Nat × Nat) → Nat
  | [] => 0
  | x :: xs => x.2 * (x.1 / m) + convertedSum m xs

/-- (finest factor, sum in that unit); `(0, 0)` for no source -/
def unitSum (l : List (Nat × Nat)) : Nat × Nat :=
  match minFactor l with
  | none => (0, 0)
  | some m => (m, convertedSum m l)

/-! ## Sample types: the per-source outcome carries the list of its sample types

`combineProfiles` keeps the sample types that ALL profiles it merges have (`CompatibilizeSampleTypes`),
in the order of the first one; an empty result is an error.  Types are numbers here. -/
def commonTypes : List (List Nat) → List Nat
  | [] => []
  | f :: rest => f.filter (fun t => rest.all (fun s => s.contains t))

/-- What the model needs of the chunking facts regenerated from the source (`Gen/FetchConsts.lean`),
as far as they were recognised (`none` = not recognised, then nothing is claimed): the chunk size
is positive; consecutive chunks start exactly one chunk length apart (no gap, no overlap) and a
chunk is not longer than the chunk size. -/
def chunkFactsOk (size step span : Option Nat) : Bool :=
  (match size with | some c => decide (1 ≤ c) | none => true) &&
  (match step, span with
    | some a, some b => decide (a = b) && decide (1 ≤ a) &&
        (match size with | some c => decide (b ≤ c) | none => true)
    | _, _ => true)

/-! ## The instance run by the driver: profiles are lists of source indices, merge = concatenation
(the free monoid: order-sensitive, so "in command-line order" is visible) -/

def catMerge : List (List Nat) → Outcome (List Nat)
  | [] => .err "merge: no profiles"
  | xs => .ok xs.flatten

/-- outcome function from a bit vector: source `i` yields the one-element "profile" `[tag + i]` -/
def outsOfBits (tag : Nat) (bits : List Bool) (i : Nat) : Res Unit (List Nat) :=
  match bits[i]? with
  | some true => .ok [tag + i]
  | _ => .fail ()

end PV.Fetch
