import PprofVerif.Model.Graph
/-
Executable model of the node selection of `Report.newTrimmedGraph` (internal/report/report.go:124)
for NON-visual reports (text, tree, topproto, …) in graph mode:
  1. cutoff = |trunc(Σ flat · nodefraction)|; when > 0 keep the entries with |cum| ≥ cutoff
     (`getNodesAboveCumCutoff`) and rebuild;
  2. sort (`SortNodes`: FlatNameOrder or CumNameOrder), keep the first `nodecount` (`selectTopNodes`),
     rebuild, sort again.
The rebuilt graphs are `Graph.newGraph K` for the kept set `K`; by C05's invariance theorems a kept
entry has its untrimmed figures, so the selection is computed here on the untrimmed entry list.
`nodefraction` is passed as an exact rational num/den (the harness uses dyadic fractions and small
totals so that Go's float64 product is exact).  Printable names and the `fmt.Sprint(Info)` tie
break strings are inputs (formatting is external).  Core Lean only.
-/
namespace PV.Trim
open PV.GSpec

/-- an entry of the untrimmed graph, with the raw accumulators the code sorts and cuts by. -/
structure Entry where
  id : Nat            -- position in the harness' table (identity for the reply)
  name : Str          -- NodeInfo.PrintableName()
  infoStr : Str       -- fmt.Sprint(NodeInfo), the final tie break (`compareNodes`)
  flat : Int          -- Node.Flat
  cum : Int           -- Node.Cum
  deriving Repr, DecidableEq

/-- `abs64(int64(float64(total) * fraction))` for fraction = num/den, den > 0, exact product. -/
def cutoffOf (total num den : Int) : Int := absI (Int.tdiv (total * num) den)

/-- `getNodesAboveCumCutoff`: drops exactly the entries with |cum| < cutoff. -/
def aboveCutoff (c : Int) (es : List Entry) : List Entry := es.filter (fun e => !(decide (absI e.cum < c)))

/-- graph.go FlatNameOrder: |flat| desc, name asc, |cum| desc, Info string asc. -/
def lessFlat (a b : Entry) : Bool :=
  if absI a.flat ≠ absI b.flat then decide (absI a.flat > absI b.flat)
  else if a.name ≠ b.name then Str.lt a.name b.name
  else if absI a.cum ≠ absI b.cum then decide (absI a.cum > absI b.cum)
  else Str.lt a.infoStr b.infoStr

/-- graph.go CumNameOrder: |cum| desc, name asc, |flat| desc, Info string asc. -/
def lessCum (a b : Entry) : Bool :=
  if absI a.cum ≠ absI b.cum then decide (absI a.cum > absI b.cum)
  else if a.name ≠ b.name then Str.lt a.name b.name
  else if absI a.flat ≠ absI b.flat then decide (absI a.flat > absI b.flat)
  else Str.lt a.infoStr b.infoStr

/-- insertion sort by a strict order `lt` (stable; any correct sort gives the same list when `lt` is a
strict total order, which is C08's business). -/
def insertBy (lt : Entry → Entry → Bool) (x : Entry) : List Entry → List Entry
  | [] => [x]
  | y :: r => if lt y x then y :: insertBy lt x r else x :: y :: r

def sortBy (lt : Entry → Entry → Bool) : List Entry → List Entry
  | [] => []
  | x :: r => insertBy lt x (sortBy lt r)

/-- `selectTopNodes` (non-visual): the first `n` when n > 0, else all. -/
def topN (n : Nat) (l : List Entry) : List Entry := if n > 0 then l.take n else l

structure TrimOpts where
  fracNum : Int
  fracDen : Int
  nodeCount : Nat
  cumSort : Bool

def order (o : TrimOpts) : Entry → Entry → Bool := if o.cumSort then lessCum else lessFlat

/-- step 1: the entries surviving the node cutoff. -/
def afterCutoff (o : TrimOpts) (es : List Entry) : List Entry :=
  let total := (es.map (·.flat)).sum
  let c := cutoffOf total o.fracNum o.fracDen
  if c > 0 then aboveCutoff c es else es

/-- the entries of a trimmed text report, in display order. -/
def trimText (o : TrimOpts) (es : List Entry) : List Entry :=
  topN o.nodeCount (sortBy (order o) (afterCutoff o es))

end PV.Trim

namespace PV.Trim
open PV.GSpec PV.Graph
/-- report.go `graphTotal`: Σ FlatValue over the listed nodes — the legend's "Showing nodes
accounting for" figure. -/
def graphTotal {κ : Type} (g : GState κ) : Int := (g.shownNodes.map (fun p => p.2.flat.value)).sum
end PV.Trim
