import PprofVerif.Model.Filter
/-
Executable model of the tag-filter compilation in internal/driver/driver_focus.go
(`compileTagFilter`, `parseTagFilterRange`) and of the part of internal/measurement it uses
(`Scale` with a concrete target unit).  Core Lean only.

* `tagFilterRangeRx = ([+-]?[[:digit:]]+)([[:alpha:]]+)?` with `FindAllStringSubmatch(s, 2)` is
  modelled by an explicit leftmost-first scanner over bytes (the classes are ASCII).
* `measurement.Scale` computes in float64; the model computes the same expression
  `value * fromFactor / toFactor` in exact rationals.  The two agree whenever the products stay
  below 2^53 (generator bound); beyond that the Go result is rounded (modelled, not verified).
  Unit factors are kept as integers: memory in bytes, time in nanoseconds, GCU in nano-GCU.
* regexp compilation of the comma separated pieces is a parameter (`compile`).
-/
namespace PV.TagFilter
open PV.Filter

/-! ### exact rationals (num / den, den > 0), compared by cross multiplication -/
structure Q where
  num : Int
  den : Nat
  deriving Repr

namespace Q
def eq (a b : Q) : Bool := a.num * b.den == b.num * a.den
def le (a b : Q) : Bool := a.num * b.den ≤ b.num * a.den
end Q

/-! ### units (internal/measurement) -/
structure Unit where
  canonical : Str
  aliases : List Str
  factor : Nat

structure UnitType where
  units : List Unit
  dflt : Unit

def S (s : String) : Str := Str.ofString s

def memoryUnits : UnitType :=
  { units := [
      ⟨S "B", [S "b", S "byte"], 1⟩,
      ⟨S "kB", [S "kb", S "kbyte", S "kilobyte"], 2^10⟩,
      ⟨S "MB", [S "mb", S "mbyte", S "megabyte"], 2^20⟩,
      ⟨S "GB", [S "gb", S "gbyte", S "gigabyte"], 2^30⟩,
      ⟨S "TB", [S "tb", S "tbyte", S "terabyte"], 2^40⟩,
      ⟨S "PB", [S "pb", S "pbyte", S "petabyte"], 2^50⟩],
    dflt := ⟨S "B", [S "b", S "byte"], 1⟩ }

def timeUnits : UnitType :=
  { units := [
      ⟨S "ns", [S "ns", S "nanosecond"], 1⟩,
      ⟨S "us", [S "μs", S "us", S "microsecond"], 1000⟩,
      ⟨S "ms", [S "ms", S "millisecond"], 1000000⟩,
      ⟨S "s", [S "s", S "sec", S "second"], 1000000000⟩,
      ⟨S "hrs", [S "hour", S "hr"], 3600000000000⟩],
    dflt := ⟨S "s", [], 1000000000⟩ }

def gcuUnits : UnitType :=
  { units := [
      ⟨S "n*GCU", [S "nanogcu"], 1⟩,
      ⟨S "u*GCU", [S "microgcu"], 10^3⟩,
      ⟨S "m*GCU", [S "milligcu"], 10^6⟩,
      ⟨S "GCU", [S "gcu"], 10^9⟩,
      ⟨S "k*GCU", [S "kilogcu"], 10^12⟩,
      ⟨S "M*GCU", [S "megagcu"], 10^15⟩,
      ⟨S "G*GCU", [S "gigagcu"], 10^18⟩,
      ⟨S "T*GCU", [S "teragcu"], 10^21⟩,
      ⟨S "P*GCU", [S "petagcu"], 10^24⟩],
    dflt := ⟨S "GCU", [], 10^9⟩ }

def unitTypes : List UnitType := [memoryUnits, timeUnits, gcuUnits]

def lowerByte (b : UInt8) : UInt8 := if 65 ≤ b ∧ b ≤ 90 then b + 32 else b

/-- `strings.ToLower` on ASCII (non-ASCII bytes are left alone: modelled for ASCII units). -/
def toLower (s : Str) : Str := s.map lowerByte

def trimSuffixS (s : Str) : Str :=
  match s.reverse with
  | 115 :: r => r.reverse
  | _ => s

def findByAlias (ut : UnitType) (a : Str) : Option Unit :=
  ut.units.find? (fun u => u.aliases.contains a)

/-- `UnitType.sniffUnit` (exact alias first, then with a plural `s` stripped). -/
def sniffUnit (ut : UnitType) (unit : Str) : Option Unit :=
  let u := toLower unit
  match findByAlias ut u with
  | some x => some x
  | none => findByAlias ut (if u.length > 2 then trimSuffixS u else u)

def isAutoUnit (u : Str) : Bool := u == S "minimum" || u == S "auto"

/-- `UnitType.convertUnit` for a target that is neither "minimum" nor "auto". -/
def convertUnit (ut : UnitType) (value : Int) (fromU toU : Str) : Option (Q × Str) :=
  match sniffUnit ut fromU with
  | none => none
  | some fu =>
    match sniffUnit ut toU with
    | none => some (⟨value * fu.factor, ut.dflt.factor⟩, ut.dflt.canonical)
    | some tu => some (⟨value * fu.factor, tu.factor⟩, tu.canonical)

def convertFirst (value : Int) (fromU toU : Str) : List UnitType → Option (Q × Str)
  | [] => none
  | ut :: r =>
    match convertUnit ut value fromU toU with
    | some x => some x
    | none => convertFirst value fromU toU r

def boringUnit (u : Str) : Bool :=
  u == S "count" || u == S "sample" || u == S "unit" || u == S "minimum" || u == S "auto"

/-- `measurement.Scale(value, fromUnit, toUnit)`; `none` when it would autoscale
(target "minimum"/"auto" with a known source unit) — never reached from the tag filters. -/
def scale (value : Int) (fromU toU : Str) : Option (Q × Str) :=
  match convertFirst value fromU toU unitTypes with
  | some x => if isAutoUnit toU then none else some x
  | none => some (⟨value, 1⟩, if boringUnit toU then [] else toU)

/-! ### the range scanner -/
def isDigit (b : UInt8) : Bool := 48 ≤ b && b ≤ 57
def isAlpha (b : UInt8) : Bool := (65 ≤ b && b ≤ 90) || (97 ≤ b && b ≤ 122)
def isSign (b : UInt8) : Bool := b == 43 || b == 45

structure RMatch where
  whole : Str
  num : Str
  unit : Str
  deriving Repr, DecidableEq

/-- a match of `([+-]?[[:digit:]]+)([[:alpha:]]+)?` starting exactly at the head of `s`:
the match and the rest of the input. -/
def matchHere (s : Str) : Option (RMatch × Str) :=
  let go (sign : Str) (t : Str) : Option (RMatch × Str) :=
    let ds := t.takeWhile isDigit
    if ds.isEmpty then none else
      let t2 := t.dropWhile isDigit
      let al := t2.takeWhile isAlpha
      some (⟨sign ++ ds ++ al, sign ++ ds, al⟩, t2.dropWhile isAlpha)
  match s with
  | [] => none
  | b :: t =>
    if isSign b then
      match go [b] t with
      | some r => some r
      | none => none   -- a sign not followed by a digit: no match here (a sign is not a digit)
    else go [] s

/-- `FindAllStringSubmatch(s, n)`: leftmost non-overlapping matches, at most `n`.
(`fuel` bounds the scan; `s.length + 1` is always enough.) -/
def scanRanges : Nat → Nat → Str → List RMatch
  | 0, _, _ => []
  | _, 0, _ => []
  | fuel+1, n+1, s =>
    match s with
    | [] => []
    | _ :: t =>
      match matchHere s with
      | some (m, rest) => m :: scanRanges fuel n rest
      | none => scanRanges fuel (n+1) t

def findRanges (s : Str) : List RMatch := scanRanges (s.length + 1) 2 s

/-! ### strconv.ParseInt(·, 10, 64) on strings of the scanner's shape -/
def digitsVal : Str → Nat → Nat
  | [], acc => acc
  | b :: r, acc => digitsVal r (acc * 10 + (b.toNat - 48))

/-- `none` = range error (the code returns an error for it). -/
def parseInt64 (s : Str) : Option Int :=
  let (neg, ds) := match s with
    | 45 :: r => (true, r)
    | 43 :: r => (false, r)
    | _ => (false, s)
  let n := digitsVal ds 0
  if neg then (if n ≤ 2^63 then some (-(n : Int)) else none)
  else (if n < 2^63 then some (n : Int) else none)

/-! ### parseTagFilterRange -/
inductive RangeKind where
  | eq | ge | le | between
  deriving Repr, DecidableEq

structure RangeFilter where
  kind : RangeKind
  lo : Q          -- scaledValue
  hi : Q          -- scaledValue2 (between)
  unit : Str
  deriving Repr

/-- the returned closure `func(v int64, u string) bool`. -/
def RangeFilter.test (rf : RangeFilter) (v : Int) (u : Str) : Bool :=
  match scale v u rf.unit with
  | none => false
  | some (sv, su) =>
    su == rf.unit &&
    (match rf.kind with
     | .eq => Q.eq sv rf.lo
     | .ge => Q.le rf.lo sv
     | .le => Q.le sv rf.lo
     | .between => Q.le rf.lo sv && Q.le sv rf.hi)

def colon : Str := [58]

/-- `parseTagFilterRange`: `ok none` = "not a range" (nil, nil), `err` = ParseInt range error. -/
def parseTagFilterRange (filter : Str) : Outcome (Option RangeFilter) :=
  match findRanges filter with
  | [] => .ok none
  | m0 :: rest =>
    match parseInt64 m0.num with
    | none => .err "failed to parse int"
    | some v =>
      match scale v m0.unit m0.unit with
      | none => .err "autoscale not modelled"
      | some (sv, unit) =>
        match rest with
        | [] =>
          if filter == m0.whole then .ok (some ⟨.eq, sv, sv, unit⟩)
          else if filter == m0.whole ++ colon then .ok (some ⟨.ge, sv, sv, unit⟩)
          else if filter == colon ++ m0.whole then .ok (some ⟨.le, sv, sv, unit⟩)
          else .ok none
        | m1 :: _ =>
          if filter != m0.whole ++ colon ++ m1.whole then .ok none
          else match parseInt64 m1.num with
            | none => .err "failed to parse int"
            | some v2 =>
              match scale v2 m1.unit unit with
              | none => .err "autoscale not modelled"
              | some (sv2, unit2) =>
                if unit != unit2 then .ok none
                else .ok (some ⟨.between, sv, sv2, unit⟩)

/-! ### compileTagFilter -/

/-- `strings.SplitN(value, "=", 2)` -/
def splitEq : Str → Option (Str × Str)
  | [] => none
  | b :: r =>
    if b == 61 then some ([], r)
    else match splitEq r with
      | some (k, v) => some (b :: k, v)
      | none => none

/-- `strings.Split(value, ",")` -/
def splitComma : Str → List Str
  | [] => [[]]
  | b :: r =>
    if b == 44 then [] :: splitComma r
    else match splitComma r with
      | [] => [[b]]
      | h :: t => (b :: h) :: t

def compileAll (compile : Str → Option Rx) : List Str → Option (List Rx)
  | [] => some []
  | t :: r =>
    match compile t with
    | none => none
    | some rx => match compileAll compile r with
      | none => none
      | some rs => some (rx :: rs)

def numMatchAny (rf : RangeFilter) (units : Str → Str) (s : Sample) : Bool :=
  s.numLabel.any (fun kv => kv.2.any (fun v => rf.test v (units kv.1)))

def numMatchKey (rf : RangeFilter) (units : Str → Str) (key : Str) (s : Sample) : Bool :=
  match s.numLabel.lookup key with
  | some vals => vals.any (fun v => rf.test v (units key))
  | none => false

/-- every regexp must match some `key:value` of the sample. -/
def strMatchAll (rfx : List Rx) (s : Sample) : Bool :=
  rfx.all (fun rx => s.label.any (fun kv => kv.2.any (fun v => rx (kv.1 ++ colon ++ v))))

/-- some regexp must match some value under `key`. -/
def strMatchKey (rfx : List Rx) (key : Str) (s : Sample) : Bool :=
  match s.label.lookup key with
  | some vals => rfx.any (fun rx => vals.any (fun v => rx v))
  | none => false

/-- `compileTagFilter(name, value, numLabelUnits, ui, nil)`: `ok none` = nil filter. -/
def compileTagFilter (compile : Str → Option Rx) (units : Str → Str) (value : Str) :
    Outcome (Option TagMatch) :=
  if value.isEmpty then .ok none else
  let (wantKey, value) := match splitEq value with
    | some (k, v) => (k, v)
    | none => ([], value)
  match parseTagFilterRange value with
  | .panic s => .panic s
  | .err e => .err e
  | .ok (some rf) =>
    if wantKey.isEmpty then .ok (some (numMatchAny rf units))
    else .ok (some (numMatchKey rf units wantKey))
  | .ok none =>
    match compileAll compile (splitComma value) with
    | none => .err "parsing regexp"
    | some rfx =>
      if wantKey.isEmpty then .ok (some (strMatchAll rfx))
      else .ok (some (strMatchKey rfx wantKey))

end PV.TagFilter
