import PprofVerif.Model.Wire
/-
Model of the BINARY part of the legacy CPU ("profilez") parser, profile/legacy_profile.go:
`get32l/get32b/get64l/get64b`, `parseCPU` (word-size / endianness probing and the header
checks), `parseCPUSamples` (the `nstk > len(b)/4` bound, the end-of-data marker, the sample
loop), and of `cpuProfile` the signal-frame removal and `cleanupDuplicateLocations`.

Every Go index expression `b[i]`, `addrs[0]`, `s.Location[1]` and every slice expression
`b[4:]`, `s.Location[:1]`, `s.Location[2:]` is a *checked* access returning `Outcome`
(`.panic` when out of range), so "never panics" is a theorem (Lemmas/LegacyCPUTotal.lean),
not an artefact of the modelling.  A Go byte slice that may be `nil` is `Option Bytes`
(`none` = nil, `some []` = empty non-nil: `parseCPU` distinguishes them with `tmp != nil`).

NOT modelled (text, regexp based — parameters of the property, covered by the harness only):
`ParseMemoryMap` on the bytes that follow the samples, `parseJavaLocations`, `Aggregate`,
the id renumbering (`remapLocationIDs/FunctionIDs/MappingIDs`).  None of them changes sample
values, sample order or — for the C++ flavour — location addresses, which is what the model
returns and what the correspondence compares.
-/
namespace PV
namespace LegacyCPU
open Wire (Bytes two64 toI64 toU64)

/-- a Go `[]byte` that may be nil -/
abbrev Slice := Option Bytes

def Slice.len : Slice → Nat
  | none => 0
  | some b => b.length

/-- `b[i]` -/
def idx (b : Bytes) (i : Nat) : Outcome Nat :=
  match b[i]? with
  | some x => .ok x.toNat
  | none => .panic "index out of range"

/-- `b[n:]` -/
def sliceFrom {α} (b : List α) (n : Nat) : Outcome (List α) :=
  if n ≤ b.length then .ok (b.drop n) else .panic "slice bounds out of range"

/-- `b[:n]` -/
def sliceTo {α} (b : List α) (n : Nat) : Outcome (List α) :=
  if n ≤ b.length then .ok (b.take n) else .panic "slice bounds out of range"

/-- `l[i]` on any list -/
def elemAt {α} (l : List α) (i : Nat) : Outcome α :=
  match l[i]? with
  | some x => .ok x
  | none => .panic "index out of range"

/-- the four entries of `cpuInts` -/
inductive Word where
  | l32 | b32 | l64 | b64
  deriving DecidableEq, Repr

def Word.size : Word → Nat
  | .l32 => 4 | .b32 => 4 | .l64 => 8 | .b64 => 8

def Word.little : Word → Bool
  | .l32 => true | .l64 => true | _ => false

def Word.name : Word → String
  | .l32 => "l32" | .b32 => "b32" | .l64 => "l64" | .b64 => "b64"

/-- `uint64(b[i]) | uint64(b[i+1])<<8 | …` over `n` bytes starting at `i` -/
def readLE (b : Bytes) : Nat → Nat → Outcome Nat
  | _, 0 => .ok 0
  | i, n + 1 => do
    let x ← idx b i
    let r ← readLE b (i + 1) n
    pure (x + 256 * r)

/-- big-endian: `uint64(b[n-1]) | uint64(b[n-2])<<8 | …`, i.e. b[0] most significant -/
def readBE (b : Bytes) : Nat → Nat → Nat → Outcome Nat
  | _, 0, acc => .ok acc
  | i, n + 1, acc => do
    let x ← idx b i
    readBE b (i + 1) n (acc * 256 + x)

/-- `get32l` / `get32b` / `get64l` / `get64b` (the word itself is `readWord`): `(0, nil)` when fewer than `size` bytes remain
(also for a nil slice, whose length is 0). -/
def readWord (w : Word) (b : Bytes) : Outcome Nat :=
  if w.little then readLE b 0 w.size else readBE b 0 w.size 0

def get (w : Word) (s : Slice) : Outcome (Nat × Slice) :=
  match s with
  | none => .ok (0, none)
  | some b =>
    if b.length < w.size then .ok (0, none) else do
      let v ← readWord w b
      let rest ← sliceFrom b w.size
      pure (v, some rest)

/-- one parsed stack: `Value` and the addresses of `Location` -/
structure CPUSample where
  values : List Int
  addrs : List Nat
  deriving Repr, DecidableEq

/-- int64 multiplication with wrap-around -/
def mulI64 (a b : Int) : Int := toI64 (toU64 (a * b))

/-- `addrs[i], b = parse(b)` for i = 0 … n-1 -/
def readAddrs (w : Word) : Nat → Slice → Outcome (List Nat × Slice)
  | 0, b => .ok ([], b)
  | n + 1, b => do
    let (a, b) ← get w b
    let (r, b) ← readAddrs w n b
    pure (a :: r, b)

/-- `addr--` for every frame but the leaf when `adjust` (uint64 wrap-around) -/
def adjustAddrs (adjust : Bool) (addrs : List Nat) : List Nat :=
  match addrs with
  | [] => []
  | a :: rest => a :: (if adjust then rest.map (fun x => (x + two64 - 1) % two64) else rest)

/-- `parseCPUSamples`.  Result `none` = `errUnrecognized`; otherwise the samples and the
remaining bytes.  `fuel` bounds the iterations of `for len(b) > 0`; `len(b)` suffices. -/
def parseCPUSamples (w : Word) (adjust : Bool) (period : Int) :
    Nat → Slice → List CPUSample → Outcome (Option (List CPUSample × Slice))
  | fuel, b, acc =>
    if b.len = 0 then .ok (some (acc, b)) else
    match fuel with
    | 0 => .panic "parseCPUSamples: out of fuel"
    | fuel + 1 => do
      let (count, b) ← get w b
      let (nstk, b) ← get w b
      match b with
      | none => pure none                                   -- b == nil
      | some bb =>
        if nstk > bb.length / 4 then pure none else do      -- nstk > uint64(len(b)/4)
        let (addrs, b) ← readAddrs w nstk (some bb)
        let isEnd ← (if count = 0 ∧ nstk = 1 then do
                        let a0 ← elemAt addrs 0               -- addrs[0]
                        pure (a0 == 0)
                      else pure false : Outcome Bool)
        if isEnd then pure (some (acc, b)) else
        let s : CPUSample := { values := [toI64 count, mulI64 (toI64 count) period],
                               addrs := adjustAddrs adjust addrs }
        parseCPUSamples w adjust period fuel b (acc ++ [s])

/-- one iteration of the signal-frame removal loop of `cpuProfile`. -/
def secondAddrs : List CPUSample → Outcome (List Nat)
  | [] => .ok []
  | s :: rest => do
    let r ← secondAddrs rest
    if s.addrs.length > 1 then do
      let a ← elemAt s.addrs 1                                 -- s.Location[1].Address
      pure (a :: r)
    else pure r

/-- `append(s.Location[:1], s.Location[2:]...)` -/
def dropSecond (addrs : List Nat) : Outcome (List Nat) := do
  let h ← sliceTo addrs 1
  let t ← sliceFrom addrs 2
  pure (h ++ t)

def stripFrame (id1 : Nat) : List CPUSample → Outcome (List CPUSample)
  | [] => .ok []
  | s :: rest => do
    let s' ← (if s.addrs.length > 1 then do
        let a ← elemAt s.addrs 1
        if a == id1 then do let l ← dropSecond s.addrs; pure { s with addrs := l } else pure s
      else pure s : Outcome CPUSample)
    let r ← stripFrame id1 rest
    pure (s' :: r)

/-- Go ranges over the map `addr1` in unspecified order and stops at the first address whose
count reaches `len(p.Sample) - margin`; at most one address can (margin = len/32), so the
choice is order independent.  The model scans addresses in first-occurrence order. -/
def removeFrameOnce (samples : List CPUSample) : Outcome (List CPUSample) := do
  let margin := samples.length / 32
  let seconds ← secondAddrs samples
  match seconds.eraseDups.find? (fun a => decide (seconds.count a ≥ samples.length - margin)) with
  | none => pure samples
  | some id1 => stripFrame id1 samples

/-- `cleanupDuplicateLocations` -/
def cleanupDup : List CPUSample → Outcome (List CPUSample)
  | [] => .ok []
  | s :: rest => do
    let s' ← (if s.addrs.length > 1 then do
        let a0 ← elemAt s.addrs 0
        let a1 ← elemAt s.addrs 1
        if a0 == (a1 + 1) % two64 then do let l ← dropSecond s.addrs; pure { s with addrs := l } else pure s
      else pure s : Outcome CPUSample)
    let r ← cleanupDup rest
    pure (s' :: r)

inductive Flavour where
  | cpp | java
  deriving DecidableEq, Repr

structure CPUResult where
  flavour : Flavour
  word : Word
  period : Int                 -- p.Period = int64(n4) * 1000
  samples : List CPUSample
  rest : Slice                 -- handed to ParseMemoryMap / parseJavaLocations
  deriving Repr

/-- `cpuProfile` up to (not including) the text part. -/
def cpuProfile (w : Word) (b : Slice) (period : Int) : Outcome (Option CPUResult) := do
  let per := mulI64 period 1000
  match ← parseCPUSamples w true per b.len b [] with
  | none => pure none
  | some (samples, rest) =>
    let samples ← removeFrameOnce samples
    let samples ← removeFrameOnce samples
    let samples ← cleanupDup samples
    pure (some { flavour := .cpp, word := w, period := per, samples, rest })

/-- `javaCPUProfile` up to the text part. -/
def javaCPUProfile (w : Word) (b : Slice) (period : Int) : Outcome (Option CPUResult) := do
  let per := mulI64 period 1000
  match ← parseCPUSamples w false per b.len b [] with
  | none => pure none
  | some (samples, rest) => pure (some { flavour := .java, word := w, period := per, samples, rest })

/-- the header probe of `parseCPU` with one entry of `cpuInts`: `none` = try the next one. -/
def probe (w : Word) (b : Bytes) : Outcome (Option (Option CPUResult)) := do
  let (n1, t) ← get w (some b)
  let (n2, t) ← get w t
  let (n3, t) ← get w t
  let (n4, t) ← get w t
  let (n5, t) ← get w t
  if t.isSome ∧ n1 = 0 ∧ n2 = 3 ∧ n3 = 0 ∧ n4 > 0 ∧ n5 = 0 then do
    let r ← cpuProfile w t (toI64 n4)
    pure (some r)
  else if t.isSome ∧ n1 = 0 ∧ n2 = 3 ∧ n3 = 1 ∧ n4 > 0 ∧ n5 = 0 then do
    let r ← javaCPUProfile w t (toI64 n4)
    pure (some r)
  else pure none

def probeAll (b : Bytes) : List Word → Outcome (Option CPUResult)
  | [] => .ok none
  | w :: ws => do
    match ← probe w b with
    | some r => pure r
    | none => probeAll b ws

/-- `parseCPU`: `ok none` = `errUnrecognized` (the dispatcher then tries the text parsers). -/
def parseCPU (b : Bytes) : Outcome (Option CPUResult) := probeAll b [.l32, .b32, .l64, .b64]

end LegacyCPU
end PV
