/-!
# Interleaving semantics of concurrent `editSettings` calls (property C19)

Each web request runs `editSettings` in its own goroutine: read the file, apply the edit, write
the file.  Thread `i` performs, in order,

  `start`  --(acquire, only with a lock; blocks while another thread holds it)-->  `locked`
  `locked` --(read: local := file)-->                                              `haveRead local`
  `haveRead v` --(write: file := edit i v)-->                                      `written`
  `written` --(release)-->                                                         `done`

and a *schedule* is the list of thread numbers in the order they take a step.  The write is a single
step here (that a write IS one step for a reader is what `SettingsFS` establishes for the
temp-file + rename protocol).  `σ` is the file content, `edit i` what request `i` does to it.
Core Lean only.
-/
namespace PV.RMW

inductive PC (σ : Type) where
  | start | locked | haveRead (v : σ) | written | done

structure Sys (σ : Type) where
  file : σ
  lock : Option Nat
  pcs : Nat → PC σ
  log : List Nat          -- threads in the order of their writes

def upd {σ : Type} (pcs : Nat → PC σ) (i : Nat) (p : PC σ) : Nat → PC σ :=
  fun j => if j = i then p else pcs j

def init {σ : Type} (f : σ) : Sys σ := { file := f, lock := none, pcs := fun _ => .start, log := [] }

/-- one step of thread `i` (`i < n`); `none` = not enabled (blocked on the lock, finished, or not
a thread). -/
def step {σ : Type} (useLock : Bool) (n : Nat) (edit : Nat → σ → σ) (s : Sys σ) (i : Nat) : Option (Sys σ) :=
  if i < n then
    match s.pcs i with
    | .start =>
      if useLock then
        (match s.lock with
         | none => some { s with lock := some i, pcs := upd s.pcs i .locked }
         | some _ => none)
      else some { s with pcs := upd s.pcs i .locked }
    | .locked => some { s with pcs := upd s.pcs i (.haveRead s.file) }
    | .haveRead v => some { s with file := edit i v, pcs := upd s.pcs i .written, log := s.log ++ [i] }
    | .written => some { s with lock := if useLock then none else s.lock, pcs := upd s.pcs i .done }
    | .done => none
  else none

def run {σ : Type} (useLock : Bool) (n : Nat) (edit : Nat → σ → σ) : Sys σ → List Nat → Option (Sys σ)
  | s, [] => some s
  | s, i :: r => (step useLock n edit s i).bind (run useLock n edit · r)

def isDone {σ : Type} : PC σ → Bool
  | .done => true
  | _ => false

/-- all `n` requests have completed. -/
def Complete {σ : Type} (n : Nat) (s : Sys σ) : Prop := ∀ i, i < n → isDone (s.pcs i) = true

/-- the requests performed one after another in the given order. -/
def serial {σ : Type} (edit : Nat → σ → σ) (order : List Nat) (f : σ) : σ :=
  order.foldl (fun acc i => edit i acc) f

end PV.RMW
