import PprofVerif.Model.Order
/-!
# The things pprof orders (property C08): tags, nodes, edges — and their projections

Mirrors `Tag`, `NodeInfo`, `Node`, `Edge` of internal/graph/graph.go as far as the comparators
read them, `NodeInfo.PrintableName` and `fmt.Sprint(NodeInfo)`.  The projection enumerations are
the vocabulary of the translator (tools/extract/comparators.go maps Go selector paths to these
constructors).  Core Lean only.
-/
namespace PV.GraphOrder
open PV PV.Order

/-! ### decimal / hexadecimal rendering (what `%d`, `%v` and `%016x` print) -/

/-- decimal digits, least significant first; `fuel > n` is always enough -/
def digitsRev : Nat → Nat → List Nat
  | 0, _ => []
  | f + 1, n => if n < 10 then [n] else (n % 10) :: digitsRev f (n / 10)

def digitByte (d : Nat) : UInt8 := UInt8.ofNat (48 + d)

def decNat (n : Nat) : Str := ((digitsRev (n + 1) n).reverse).map digitByte

def decInt (i : Int) : Str :=
  if i < 0 then (45 : UInt8) :: decNat (-i).toNat else decNat i.toNat

def hexByte (d : Nat) : UInt8 := if d < 10 then UInt8.ofNat (48 + d) else UInt8.ofNat (87 + d)

/-- `%016x` of a uint64 -/
def hex16 (n : Nat) : Str :=
  (List.range 16).reverse.map (fun i => hexByte ((n / 16 ^ i) % 16))

/-! ### NodeInfo -/

structure NodeInfo where
  name : Str
  origName : Str
  address : Nat
  file : Str
  startLine : Int
  lineno : Int
  columnno : Int
  objfile : Str
  deriving DecidableEq, Repr

def sp : UInt8 := 32
def slash : UInt8 := 47

/-- `filepath.Base` on Unix. -/
def pathBase (p : Str) : Str :=
  if p = [] then [46] else
  let t := (p.reverse.dropWhile (· == slash))           -- strip trailing slashes (reversed)
  if t = [] then [slash] else (t.takeWhile (· != slash)).reverse

def joinSp : List Str → Str
  | [] => []
  | [s] => s
  | s :: rest => s ++ sp :: joinSp rest

/-- `NodeInfo.NameComponents`. -/
def nameComponents (i : NodeInfo) : List Str :=
  let c1 : List Str := if i.address != 0 then [hex16 i.address] else []
  let c2 : List Str := if i.name != [] then [i.name] else []
  let c3 : List Str :=
    if i.lineno != 0 then
      let s := i.file ++ (58 : UInt8) :: decInt i.lineno
      [if i.columnno != 0 then s ++ (58 : UInt8) :: decInt i.columnno else s]
    else if i.file != [] then [i.file]
    else if i.name != [] then []
    else if i.objfile != [] then [(91 : UInt8) :: pathBase i.objfile ++ [93]]
    else [[60, 117, 110, 107, 110, 111, 119, 110, 62]]  -- "<unknown>"
  c1 ++ c2 ++ c3

/-- `NodeInfo.PrintableName` = components joined by one space. -/
def printableName (i : NodeInfo) : Str := joinSp (nameComponents i)

/-- the eight fields as `fmt.Sprint` prints them -/
def sprintFields (i : NodeInfo) : List Str :=
  [i.name, i.origName, decNat i.address, i.file, decInt i.startLine, decInt i.lineno,
   decInt i.columnno, i.objfile]

/-- `fmt.Sprint(info)` for the struct: `{Name OrigName Address File StartLine Lineno Columnno Objfile}`. -/
def sprintInfo (i : NodeInfo) : Str := (123 : UInt8) :: joinSp (sprintFields i) ++ [125]

/-! ### elements -/

structure Tag where
  name : Str
  unit : Str
  value : Int
  flat : Int
  flatDiv : Int
  cum : Int
  cumDiv : Int
  deriving DecidableEq, Repr

/-- `ext` carries a score computed outside the model (entropyScore uses float64 arithmetic). -/
structure Node where
  info : NodeInfo
  flat : Int
  flatDiv : Int
  cum : Int
  cumDiv : Int
  ext : Int
  deriving DecidableEq, Repr

structure Edge where
  src : Node
  dst : Node
  weight : Int
  weightDiv : Int
  deriving DecidableEq, Repr

/-! ### projections (the translator's vocabulary) -/

inductive TagProj | Name | Unit | Value | Flat | FlatDiv | Cum | CumDiv
  deriving DecidableEq, Repr

inductive NodeProj
  | Flat | FlatDiv | Cum | CumDiv | Score
  | Info_Name | Info_OrigName | Info_Address | Info_File | Info_StartLine | Info_Lineno
  | Info_Columnno | Info_Objfile | Info_PrintableName | Sprint_Info
  deriving DecidableEq, Repr

inductive EdgeProj
  | Weight | WeightDiv
  | Src (p : NodeProj)
  | Dest (p : NodeProj)
  deriving DecidableEq, Repr

/-- what `score[n]` holds in the score-based node orders -/
inductive ScoreSrc
  | field (p : NodeProj)
  | external (fn : String)
  deriving DecidableEq, Repr

def TagProj.get : TagProj → Tag → Key
  | .Name, t => skey t.name
  | .Unit, t => skey t.unit
  | .Value, t => ikey t.value
  | .Flat, t => ikey t.flat
  | .FlatDiv, t => ikey t.flatDiv
  | .Cum, t => ikey t.cum
  | .CumDiv, t => ikey t.cumDiv

/-- projections that do not depend on the score source (`Score` = the external score) -/
def NodeProj.getBase : NodeProj → Node → Key
  | .Flat, n => ikey n.flat
  | .FlatDiv, n => ikey n.flatDiv
  | .Cum, n => ikey n.cum
  | .CumDiv, n => ikey n.cumDiv
  | .Score, n => ikey n.ext
  | .Info_Name, n => skey n.info.name
  | .Info_OrigName, n => skey n.info.origName
  | .Info_Address, n => ikey n.info.address
  | .Info_File, n => skey n.info.file
  | .Info_StartLine, n => ikey n.info.startLine
  | .Info_Lineno, n => ikey n.info.lineno
  | .Info_Columnno, n => ikey n.info.columnno
  | .Info_Objfile, n => skey n.info.objfile
  | .Info_PrintableName, n => skey (printableName n.info)
  | .Sprint_Info, n => skey (sprintInfo n.info)

def NodeProj.get (sc : ScoreSrc) : NodeProj → Node → Key
  | .Score, n => (match sc with
      | .field q => q.getBase n
      | .external _ => ikey n.ext)
  | p, n => p.getBase n

/-- edges read node attributes that never involve the score map -/
def EdgeProj.get : EdgeProj → Edge → Key
  | .Weight, e => ikey e.weight
  | .WeightDiv, e => ikey e.weightDiv
  | .Src p, e => p.getBase e.src
  | .Dest p, e => p.getBase e.dst

/-! ### the comparators denoted by generated descriptor lists -/

def tagLess (ks : List (KD TagProj)) : Tag → Tag → Bool := lessOf (ks.map (KD.toDesc TagProj.get))
def nodeLess (sc : ScoreSrc) (ks : List (KD NodeProj)) : Node → Node → Bool :=
  lessOf (ks.map (KD.toDesc (NodeProj.get sc)))
def edgeLess (ks : List (KD EdgeProj)) : Edge → Edge → Bool := lessOf (ks.map (KD.toDesc EdgeProj.get))

/-! ### the documented direction contract of `Nodes.Sort` ("decreasing order for (absolute)
numeric quantities, alphabetically for text, and increasing for addresses") -/

inductive ProjClass | weight | text | position deriving DecidableEq, Repr

def TagProj.cls : TagProj → ProjClass
  | .Name | .Unit => .text
  | _ => .weight

def NodeProj.cls : NodeProj → ProjClass
  | .Flat | .FlatDiv | .Cum | .CumDiv | .Score => .weight
  | .Info_Address | .Info_StartLine | .Info_Lineno | .Info_Columnno => .position
  | _ => .text

def EdgeProj.cls : EdgeProj → ProjClass
  | .Weight | .WeightDiv => .weight
  | .Src p | .Dest p => p.cls

/-- weights: by magnitude, descending; text and positions: untransformed, ascending -/
def contractKey {π : Type} (cls : π → ProjClass) (d : KD π) : Bool :=
  match cls d.proj with
  | .weight => decide (d.xf = Xf.abs) && decide (d.dir = Dir.desc)
  | .text | .position => decide (d.xf = Xf.id) && decide (d.dir = Dir.asc)

def contractOK {π : Type} (cls : π → ProjClass) (ks : List (KD π)) : Bool := ks.all (contractKey cls)

end PV.GraphOrder
