import PprofVerif.Model.Dot
import PprofVerif.Model.Callgrind
/-
C18 — model of how dotgraph.go (with fixes/C18-dot-escape-all-sites.patch) ASSEMBLES the quoted
strings of a DOT document: `multilinePrintableName`, `NodeInfo.NameComponents`, the node label
and tooltip of `addNode`, the label of a tag nodelet (`escapeLabelTagForDot`), the legend label.
External functions are parameters: `shorten` = graph.ShortenFunctionName, `base` = filepath.Base,
`fmtv` = DotConfig.FormatValue, `pct` = measurement.Percentage (trimmed), `split` =
strings.Split(·, `\n`).  Core Lean only.
-/
namespace PV
namespace Dot

open PV.Callgrind (dec hex)

/-- `strings.Replace(s, old, new, -1)` for a non-empty `old`: leftmost, non-overlapping matches.
`fuel` bounds the recursion (`s.length + 1` suffices). -/
def replaceAllF : Nat → Bytes → Bytes → Bytes → Bytes
  | 0, _, _, s => s
  | _ + 1, _, _, [] => []
  | f + 1, old, new, b :: r =>
    if old.isPrefixOf (b :: r) then new ++ replaceAllF f old new ((b :: r).drop old.length)
    else b :: replaceAllF f old new r

def replaceAll (old new s : Bytes) : Bytes := replaceAllF (s.length + 1) old new s

/-- `strings.Join(parts, sep)` -/
def join (sep : Bytes) : List Bytes → Bytes
  | [] => []
  | [p] => p
  | p :: q :: rest => p ++ sep ++ join sep (q :: rest)

/-- the fields of graph.NodeInfo that reach a printable name -/
structure Info where
  name : Bytes
  file : Bytes
  objfile : Bytes
  address : Nat
  lineno : Nat
  columnno : Nat
  deriving Repr, DecidableEq

def lit (s : String) : Bytes := s.toUTF8.toList

def BSn : Bytes := [BS, 0x6e]   -- the two bytes `\n`
def BSl : Bytes := [BS, LL]     -- the two bytes `\l`
def COLON : UInt8 := 0x3a
def SPC : UInt8 := 0x20

/-- `fmt.Sprintf("%016x", a)` -/
def hex016 (a : Nat) : Bytes := List.replicate (16 - (hex a).length) 0x30 ++ hex a

/-- graph.go `NodeInfo.NameComponents` (`base` = filepath.Base) -/
def nameComponents (base : Bytes → Bytes) (i : Info) : List Bytes :=
  (if i.address ≠ 0 then [hex016 i.address] else []) ++
  (if i.name ≠ [] then [i.name] else []) ++
  (if i.lineno ≠ 0 then
     [i.file ++ COLON :: dec i.lineno ++ (if i.columnno ≠ 0 then COLON :: dec i.columnno else [])]
   else if i.file ≠ [] then [i.file]
   else if i.name ≠ [] then []
   else if i.objfile ≠ [] then [0x5b :: base i.objfile ++ [0x5d]]
   else [[0x3c, 0x75, 0x6e, 0x6b, 0x6e, 0x6f, 0x77, 0x6e, 0x3e]])   -- "<unknown>"

/-- `NodeInfo.PrintableName` -/
def printableName (base : Bytes → Bytes) (i : Info) : Bytes := join [SPC] (nameComponents base i)

def DOTS : Bytes := [0x5b, 0x2e, 0x2e, 0x2e, 0x5d]            -- "[...]"
def ELLIPSIS : Bytes := [0x5b, 0xe2, 0x80, 0xa6, 0x5d]        -- "[…]"

/-- dotgraph.go `multilinePrintableName` (repaired: file and object names are escaped too) -/
def multilinePrintableName (shorten base : Bytes → Bytes) (i : Info) : Bytes :=
  let name := replaceAll [0x2e] BSn (replaceAll DOTS ELLIPSIS (replaceAll [COLON, COLON] BSn (escape (shorten i.name))))
  let file := if i.file ≠ [] then escape (base i.file) else i.file
  let i' : Info := { i with name := name, file := file, objfile := escape i.objfile }
  join BSn (nameComponents base i') ++ BSn

/-- the label `addNode` builds (no caller-supplied Formatter): name lines, then the flat value
and its percentage, then the cumulative ones.  `fmtv` = FormatValue, wrapped by the repaired
`builder.formatValue` in `escapeForDot`; `pct` = trimmed measurement.Percentage. -/
def nodeLabel (shorten base : Bytes → Bytes) (fmtv : Int → Bytes) (pct : Int → Bytes) (i : Info) (flat cum : Int) : Bytes :=
  multilinePrintableName shorten base i ++
  (if flat ≠ 0 then escape (fmtv flat) ++ [SPC, 0x28] ++ pct flat ++ [0x29] else [0x30]) ++
  (if cum ≠ flat then
     (if flat ≠ 0 then BSn else [SPC]) ++ [0x6f, 0x66, SPC] ++ escape (fmtv cum) ++ [SPC, 0x28] ++ pct cum ++ [0x29]
   else [])

/-- the tooltip of a node: `escapeForDot(PrintableName()) + " (" + cumValue + ")"` -/
def nodeTooltip (base : Bytes → Bytes) (fmtv : Int → Bytes) (i : Info) (flat cum : Int) : Bytes :=
  escape (printableName base i) ++ [SPC, 0x28] ++ escape (fmtv (if cum ≠ flat then cum else flat)) ++ [0x29]

/-- the tooltip of an edge: `"src -> dst (w)"` / `"src ... dst (w)"` -/
def edgeTooltip (base : Bytes → Bytes) (fmtv : Int → Bytes) (src dst : Info) (w : Int) (residual : Bool) : Bytes :=
  escape (printableName base src) ++ SPC :: (if residual then [0x2e, 0x2e, 0x2e] else [0x2d, 0x3e]) ++ SPC ::
  escape (printableName base dst) ++ [SPC, 0x28] ++ escape (fmtv w) ++ [0x29]

/-- the label of a tag nodelet (repaired `escapeLabelTagForDot`): the pieces of the tag name
between the `\n` separators written by graph.joinLabels, each escaped (`split` = strings.Split) -/
def tagLabel (split : Bytes → List Bytes) (name : Bytes) : Bytes := join BSn ((split name).map escape)

/-- the legend label: `strings.Join(escapeAllForDot(labels), "\l") + "\l"` -/
def legendLabel (labels : List Bytes) : Bytes := join BSl (labels.map escape) ++ BSl

end Dot
end PV
