import PprofVerif.Model.LegacyHeap
/-!
# C14 — threadz profiles: `parseThread`, `parseThreadSample`

```
--- threadz 1 ---                       (optional)
<comment / blank lines>
--- Thread 7f79… (name: main/14748) stack: ---
  PC:  0x00bc8f1c: helper(arg *)
  0x0040be31: main
      creator: 0xa45b96 0xa460b4
--- Thread 7f79… (name: t3/14759) stack: ---
  [same as previous thread]
---- no stack trace for 3 threads ----  (optional)
--- Memory map: ---
```
One sample (value 1) per thread with a stack; "same as previous thread" adds one to the
preceding sample; the leaf address is left alone, all others are moved back by one; a
duplicated leaf (second frame = leaf after adjustment) is dropped.
-/
namespace PV.Legacy
open PV

inductive ThreadLabel where
  | none | pc | pc2 | creator
  deriving Repr, DecidableEq, Inhabited

def ThreadLabel.print : ThreadLabel → Str
  | .none => [] | .pc => asc "PC:" | .pc2 => asc "PC: " | .creator => asc "creator:"

structure ThreadLine where
  blanks : Nat            -- blank lines before this line
  indent : Nat
  label : ThreadLabel
  addrs : List Nat
  sym : Option Str        -- `: <symbol>` after the addresses
  deriving Repr, DecidableEq, Inhabited

def ThreadLine.print (w : Nat) (l : ThreadLine) : Str :=
  sp l.indent ++ l.label.print ++ printAddrs w l.addrs ++
    (match l.sym with | none => [] | some t => asc ": " ++ t)

/-- symbol text: printable, without `0` (cannot start a hex literal) and without `v` (cannot
spell the "same as previous thread" marker). -/
def symOK (t : Str) : Bool := t.all (fun b => isPrint b && b.toNat != 48 && b.toNat != 118)

inductive ThreadBody where
  | same (blanks : Nat) (indent : Nat)
  | stack (lines : List ThreadLine)
  deriving Repr, DecidableEq, Inhabited

structure ThreadRec where
  id : Nat
  name : Str
  tid : Nat
  body : ThreadBody
  deriving Repr, DecidableEq, Inhabited

def ThreadRec.headerLine (r : ThreadRec) : Str :=
  asc "--- Thread " ++ hex r.id ++ asc " (name: " ++ r.name ++ [47] ++ dec r.tid ++ asc ") stack: ---"

def sameMarker : Str := asc "[same as previous thread]"

def ThreadBody.lines (w : Nat) : ThreadBody → List Str
  | .same blanks indent => List.replicate blanks [] ++ [sp indent ++ sameMarker]
  | .stack ls => ls.flatMap (fun l => List.replicate l.blanks [] ++ [l.print w])

def ThreadRec.lines (w : Nat) (r : ThreadRec) : List Str := r.headerLine :: r.body.lines w

inductive ThreadEnd where
  | map (m : MapSection)
  | noStack (n : Nat) (m : Option MapSection)
  deriving Repr, DecidableEq, Inhabited

def noStackLine (n : Nat) : Str := asc "---- no stack trace for " ++ dec n ++ asc " threads ----"

def ThreadEnd.lines : ThreadEnd → List Str
  | .map m => tailLines sentinelMemoryMap (some m)
  | .noStack n m => noStackLine n :: tailLines sentinelMemoryMap m

def ThreadEnd.mappings : ThreadEnd → List Mapping
  | .map m => m.mappings
  | .noStack _ m => tailMappings m

structure ThreadDoc where
  pre : List Filler
  head : Option (Nat × List Filler)     -- `--- threadz N ---` and the lines after it
  width : Nat
  recs : List ThreadRec
  ending : ThreadEnd
  deriving Repr, DecidableEq, Inhabited

def threadzLine (n : Nat) : Str := asc "--- threadz " ++ dec n ++ asc " ---"

def ThreadDoc.lines (d : ThreadDoc) : List Str :=
  printFillers d.pre ++
    (match d.head with | none => [] | some (n, fs) => threadzLine n :: printFillers fs) ++
    d.recs.flatMap (ThreadRec.lines d.width) ++ d.ending.lines

def printThread (d : ThreadDoc) : Str := unlines d.lines

def ThreadBody.addrs : ThreadBody → List Nat
  | .same _ _ => []
  | .stack ls => ls.flatMap (·.addrs)

/-- threadzStartRE `--- threadz \d+ ---` (unanchored) -/
def matchThreadzAt (s : Str) : Option Unit := do
  let s ← stripPrefix (asc "--- threadz ") s
  let (_, s) ← reDigits s
  let _ ← stripPrefix (asc " ---") s
  pure ()

def ThreadRec.wf (r : ThreadRec) : Bool :=
  r.name.all isPrint &&
  -- the header line must not itself read as a memory-map sentinel or a `--- threadz N ---` line
  !isMemoryMapSentinel r.headerLine && (searchRe matchThreadzAt r.headerLine).isNone &&
  (match r.body with
   | .same _ _ => true
   | .stack ls => ls.all (fun l => l.addrs.all (· < two64) && l.sym.all symOK) && ls.flatMap (·.addrs) != [])

def ThreadEnd.wf : ThreadEnd → Bool
  | .map m => m.wf
  | .noStack _ m => (match m with | none => true | some m => m.wf)

def ThreadDoc.wf (d : ThreadDoc) : Bool :=
  d.pre.all Filler.wf && (match d.head with | none => d.recs != [] | some (_, fs) => fs.all Filler.wf) &&
  d.recs.all ThreadRec.wf && d.ending.wf

def threadHeader : Header :=
  { sampleType := [vt "thread" "count"], periodType := some (vt "thread" "count"), period := 1,
    durationNanos := 0, dropFrames := cpuProfilerRxStr, keepFrames := [] }

/-- call sites moved back by one, the leaf left alone. -/
def adjustCallers : List Nat → List Nat
  | [] => []
  | leaf :: callers => leaf :: callers.map decr64

/-- add one to the first value of the most recent sample (`acc` holds the samples newest first). -/
def bumpLast : List RawSample → List RawSample
  | [] => []
  | s :: r => { s with values := match s.values with | v :: vs => (v + 1) :: vs | [] => [] } :: r

/-- the samples of the records, newest first. -/
def threadSamplesRev : List ThreadRec → List RawSample → List RawSample
  | [], acc => acc
  | r :: rs, acc =>
    match r.body with
    | .same _ _ => threadSamplesRev rs (bumpLast acc)
    | .stack ls =>
      threadSamplesRev rs ({ addrs := adjustCallers (ls.flatMap (·.addrs)), values := [1], numLabel := [] } :: acc)

/-- `cleanupDuplicateLocations` on one sample -/
def cleanupDup (s : RawSample) : RawSample :=
  match s.addrs with
  | a0 :: a1 :: r => if a0 == (a1 + 1) % two64 then { s with addrs := a0 :: r } else s
  | _ => s

def expectedThread (d : ThreadDoc) : Profile :=
  let ss := (threadSamplesRev d.recs []).reverse
  finish threadHeader ss (ss.map cleanupDup) d.ending.mappings

/-! ### parser -/
/-- `/(\d+)\) stack: ---` -/
def matchThreadTailAt (s : Str) : Option Unit := do
  let s ← stripPrefix [47] s
  let (_, s) ← reDigits s
  let _ ← stripPrefix (asc ") stack: ---") s
  pure ()

/-- threadStartRE `--- Thread ([[:xdigit:]]+) \(name: (.*)/(\d+)\) stack: ---` (unanchored) -/
def matchThreadStartAt (s : Str) : Option Unit := do
  let s ← stripPrefix (asc "--- Thread ") s
  let id := s.takeWhile isXDigit
  if id.isEmpty then none else
  let s ← stripPrefix (asc " (name: ") (s.dropWhile isXDigit)
  searchRe matchThreadTailAt s

def isThreadStart (l : Str) : Bool := (searchRe matchThreadStartAt l).isSome

/-- `parseThreadSample`: `last` is the most recently scanned (trimmed) line. Returns the line
the traceback ended on, the lines after it, and the addresses (none for "same as previous"). -/
def threadSample : Str → List Str → Bool → List Nat → Outcome (Str × List Str × List Nat)
  | last, [], same, acc => .ok (last, [], if same then [] else acc)
  | _, l :: r, same, acc =>
    let line := trimSpace l
    if line.isEmpty then threadSample line r same acc
    else if hasPrefix (asc "---") line then .ok (line, r, if same then [] else acc)
    else if containsSub (asc "same as previous thread") line then threadSample line r true acc
    else
      match parseHexAddresses line with
      | none => .err "malformed sample"
      | some as => threadSample line r same (acc ++ as)

/-- the main loop of `parseThread`; `fuel` bounds the number of iterations (one thread each). -/
def threadLoop : Nat → Str → List Str → List RawSample → Outcome (List RawSample × Str × List Str)
  | 0, _, _, _ => .err "out of fuel"
  | f+1, line, rest, acc =>
    if isMemoryMapSentinel line then .ok (acc.reverse, line, rest)
    else if hasPrefix (asc "---- no stack trace for") line then .ok (acc.reverse, line, rest)
    else if !isThreadStart line then .err "unrecognized"
    else
      match threadSample [] rest false [] with
      | .err e => .err e
      | .panic e => .panic e
      | .ok (next, rest', addrs) =>
        if addrs.isEmpty then threadLoop f next rest' (bumpLast acc)
        else threadLoop f next rest' ({ addrs := adjustCallers addrs, values := [1], numLabel := [] } :: acc)

/-- after `--- threadz N ---`: advance to the first line starting with `-` or being a sentinel;
returns that line (or the last line scanned) and the rest. -/
def skipPreamble : Str → List Str → Str × List Str
  | last, [] => (last, [])
  | _, l :: r => if isMemoryMapSentinel l || hasPrefix [45] l then (l, r) else skipPreamble l r

def parseThreadLines (ls : List Str) : Outcome Profile :=
  let (hd, rest) := skipLeadingFillers ls
  let start : Option (Str × List Str) :=
    if (searchRe matchThreadzAt hd).isSome then some (skipPreamble hd rest)
    else if isThreadStart hd then some (hd, rest)
    else none
  match start with
  | none => .err "unrecognized"
  | some (line, rest) =>
    match threadLoop (rest.length + 2) line rest [] with
    | .err e => .err e
    | .panic e => .panic e
    | .ok (ss, cur, rest') =>
      .ok (finish threadHeader ss (ss.map cleanupDup) (parseAdditionalSections cur rest'))

def parseThread (b : Str) : Outcome Profile := parseThreadLines (splitLines b)

end PV.Legacy
