import PprofVerif.Base.Tok
/-!
# Model/Session — the interactive shell and the web UI as state machines (property C10)

Mirrors `internal/driver/interactive.go` (`interactive`, `shortcuts.expand`, `parseCommandLine`,
`catRegex`), `internal/driver/config.go` (`configFields`, `set`, `get`, `configure`, `isConfigurable`,
`isBoolConfig`, `applyURL`), `profile/index.go` (`SampleIndexByName`), `internal/driver/driver.go`
(`profileCopier.newCopy`) and `internal/driver/webui.go`/`stacks.go` (`makeReport` + the per-endpoint
config editors).  Core Lean only.

What is a PARAMETER (`Env`): the profile decoder (`profile.ParseUncompressed`), the report generator
(`generateReport` / `generateRawReport`+rendering) — a function `Profile → Config → cmd → Out × Profile`
which MAY RETURN A MUTATED PROFILE that the step function discards: the model of "generateReport is
allowed to modify p" — and float normalisation (`strconv.ParseFloat` ∘ `fmt.Sprint`).

Strings are byte lists; `TrimSpace`/`Fields` are modelled for ASCII white space (the harness only
generates ASCII lines; stated as an assumption in checks/C10.json).
-/
namespace PV.Session

/-- ASCII literal → bytes, in a form the kernel can evaluate (`decide`). -/
def lit (s : String) : Str := s.toList.map (fun c => c.toNat.toUInt8)

/-! ## byte-string helpers (strings.TrimSpace, Fields, SplitN "=", LastIndex) -/

def isSpace (b : UInt8) : Bool := b == 32 || b == 9 || b == 10 || b == 11 || b == 12 || b == 13

def trimLeft : Str → Str
  | [] => []
  | b :: r => if isSpace b then trimLeft r else b :: r

/-- `strings.TrimSpace` (ASCII). -/
def trimSpace (s : Str) : Str := (trimLeft (trimLeft s).reverse).reverse

def fieldsAux : Str → Str → List Str
  | [], cur => if cur.isEmpty then [] else [cur.reverse]
  | b :: r, cur =>
    if isSpace b then (if cur.isEmpty then fieldsAux r [] else cur.reverse :: fieldsAux r [])
    else fieldsAux r (b :: cur)

/-- `strings.Fields` (ASCII). -/
def fields (s : Str) : List Str := fieldsAux s []

/-- `strings.SplitN(s, "=", 2)`: the part before the first `=` and, if there is one, the rest. -/
def splitEq : Str → Str × Option Str
  | [] => ([], none)
  | b :: r => if b == 61 then ([], some r) else match splitEq r with | (a, v) => (b :: a, v)

def lastIndexAux (pat : Str) : Str → Nat → Option Nat → Option Nat
  | [], i, acc => if pat.isEmpty then some i else acc
  | b :: r, i, acc => lastIndexAux pat r (i + 1) (if pat.isPrefixOf (b :: r) then some i else acc)

/-- `strings.LastIndex(s, pat)`. -/
def lastIndex (s pat : Str) : Option Nat := lastIndexAux pat s 0 none

/-- sentinel for comments on options, `commentStart`. -/
def commentStart : Str := [47, 47, 58]

/-- value part of `name=value`: cut a trailing `//:` comment, then TrimSpace. -/
def cleanValue (v : Str) : Str :=
  trimSpace (match lastIndex v commentStart with | some i => v.take i | none => v)

def joinWith (sep : Str) : List Str → Str
  | [] => []
  | [a] => a
  | a :: r => a ++ sep ++ joinWith sep r

/-! ## numbers and booleans (strconv.Atoi, ParseInt(_,10,32), ParseBool, stringToBool) -/

def digitVal (b : UInt8) : Option Nat := if 48 ≤ b.toNat ∧ b.toNat ≤ 57 then some (b.toNat - 48) else none

def digitsAux : Str → Nat → Option Nat
  | [], acc => some acc
  | b :: r, acc => match digitVal b with | some d => digitsAux r (acc * 10 + d) | none => none

/-- non-empty decimal digit string. -/
def digits (s : Str) : Option Nat := if s.isEmpty then none else digitsAux s 0

/-- base-10 integer syntax of `strconv.ParseInt`: optional sign, at least one digit, no underscores. -/
def parseDec (s : Str) : Option Int :=
  match s with
  | 43 :: r => (digits r).map Int.ofNat
  | 45 :: r => (digits r).map (fun n => - Int.ofNat n)
  | _ => (digits s).map Int.ofNat

def inBits (bits : Nat) (i : Int) : Bool := decide (-(2 : Int) ^ (bits - 1) ≤ i) && decide (i < (2 : Int) ^ (bits - 1))

/-- `strconv.Atoi` on a 64-bit platform (`err == nil` case). -/
def atoi (s : Str) : Option Int := (parseDec s).filter (inBits 64)
/-- `strconv.ParseInt(s, 10, 32)` (`err == nil` case). -/
def parseInt32 (s : Str) : Option Int := (parseDec s).filter (inBits 32)

def intStr (i : Int) : Str := lit (toString i)

def lowerByte (b : UInt8) : UInt8 := if 65 ≤ b.toNat ∧ b.toNat ≤ 90 then b + 32 else b

/-- `stringToBool` of commands.go ("" is true). -/
def stringToBool (s : Str) : Option Bool :=
  let l := s.map lowerByte
  if [lit "true", lit "t", lit "yes", lit "y", lit "1", []].contains l then some true
  else if [lit "false", lit "f", lit "no", lit "n", lit "0"].contains l then some false
  else none

/-- `strconv.ParseBool`. -/
def parseBool (s : Str) : Option Bool :=
  if [lit "1", lit "t", lit "T", lit "TRUE", lit "true", lit "True"].contains s then some true
  else if [lit "0", lit "f", lit "F", lit "FALSE", lit "false", lit "False"].contains s then some false
  else none

def boolStr (b : Bool) : Str := if b then lit "true" else lit "false"

/-! ## the option table (`configFields`, built by config.go `init`) -/

inductive Kind where
  | str | int | float | bool
  deriving DecidableEq, Repr

structure FieldD where
  name : Str
  kind : Kind
  choices : List Str
  urlparam : Str
  dflt : Str
  deriving DecidableEq

def mk (n : String) (k : Kind) (url : String) (d : String) (ch : List String := []) : FieldD :=
  { name := lit n, kind := k, choices := ch.map lit, urlparam := lit url, dflt := lit d }

/-- fields in struct order (the order `applyURL` and `printCurrentOptions` iterate in); default
values as `get` prints them (`defaultConfig`). -/
def fieldTable : List FieldD := [
  mk "output" .str "" "",
  mk "call_tree" .bool "calltree" "false",
  mk "relative_percentages" .bool "rel" "false",
  mk "unit" .str "unit" "minimum",
  mk "compact_labels" .bool "compact" "false",
  mk "source_path" .str "" "",
  mk "trim_path" .str "" "",
  mk "intel_syntax" .bool "intel" "false",
  mk "mean" .bool "mean" "false",
  mk "sample_index" .str "si" "",
  mk "divide_by" .float "" "1",
  mk "normalize" .bool "norm" "false",
  mk "sort" .str "sort" "flat" ["cum", "flat"],
  mk "tagroot" .str "" "",
  mk "tagleaf" .str "" "",
  mk "drop_negative" .bool "dropneg" "false",
  mk "nodecount" .int "n" "-1",
  mk "nodefraction" .float "nf" "0.005",
  mk "edgefraction" .float "ef" "0.001",
  mk "trim" .bool "trim" "true",
  mk "focus" .str "f" "",
  mk "ignore" .str "i" "",
  mk "prune_from" .str "prunefrom" "",
  mk "hide" .str "h" "",
  mk "show" .str "s" "",
  mk "show_from" .str "sf" "",
  mk "tagfocus" .str "tf" "",
  mk "tagignore" .str "ti" "",
  mk "tagshow" .str "ts" "",
  mk "taghide" .str "th" "",
  mk "noinlines" .bool "noinlines" "false",
  mk "showcolumns" .bool "showcolumns" "false",
  mk "granularity" .str "g" "" ["functions", "filefunctions", "files", "lines", "addresses"]
]

/-- the option record: a finite map name → value (as printed by `config.get`), keys = `fieldTable`. -/
abbrev Config := List (Str × Str)

def defaultConfig : Config := fieldTable.map (fun f => (f.name, f.dflt))

def Config.get (c : Config) (n : Str) : Option Str := List.lookup n c

def Config.put (c : Config) (n v : Str) : Config :=
  c.map (fun kv => if kv.1 == n then (kv.1, v) else kv)

def Config.keys (c : Config) : List Str := c.map (·.1)

/-- `configFieldMap[name]`: the field named `name`, or the multi-choice field having `name` as a choice. -/
def lookupField (name : Str) : Option FieldD :=
  match fieldTable.find? (fun f => f.name == name) with
  | some f => some f
  | none => fieldTable.find? (fun f => f.choices.contains name)

def isConfigurable (name : Str) : Bool := (lookupField name).isSome

def isBoolConfig (name : Str) : Bool :=
  match lookupField name with
  | none => false
  | some f => if f.name != name then true else f.kind == .bool

inductive ErrK where
  | pleaseSpecify | sampleIndex | badValue | unknownField
  | didYouMean | unrecognized | needsArg | eolAfterGt
  deriving DecidableEq, Repr

def ErrK.toStr : ErrK → String
  | .pleaseSpecify => "please-specify" | .sampleIndex => "sample-index" | .badValue => "bad-value"
  | .unknownField => "unknown-field" | .didYouMean => "did-you-mean" | .unrecognized => "unrecognized"
  | .needsArg => "needs-arg" | .eolAfterGt => "eol-after-gt"

/-- `(*config).set`; the stored value is what `get` would print afterwards. -/
def setField (floatNorm : Str → Option Str) (f : FieldD) (value : Str) (c : Config) : Except ErrK Config :=
  match f.kind with
  | .str =>
    if f.choices.isEmpty then .ok (c.put f.name value)
    else if f.choices.contains value then .ok (c.put f.name value) else .error .badValue
  | .int => match atoi value with
    | some i => .ok (c.put f.name (intStr i))
    | none => .error .badValue
  | .float => match floatNorm value with
    | some v => .ok (c.put f.name v)
    | none => .error .badValue
  | .bool => match stringToBool value with
    | some b => .ok (c.put f.name (boolStr b))
    | none => .error .badValue

/-- `configure(name, value)` applied to a config value. -/
def configure (floatNorm : Str → Option Str) (name value : Str) (c : Config) : Except ErrK Config :=
  match lookupField name with
  | none => .error .unknownField
  | some f =>
    if f.name == name then setField floatNorm f value c
    else if parseBool value == some true then setField floatNorm f name c
    else .error .unknownField

/-! ## sample types (`SampleIndexByName`, `profileShortcuts`) -/

def idxOf (l : List Str) (x : Str) : Option Nat :=
  match l with
  | [] => none
  | a :: r => if a == x then some 0 else (idxOf r x).map (· + 1)

def stripInuse (s : Str) : Str := if (lit "inuse_").isPrefixOf s then s.drop 6 else s

def idxOf2 (l : List Str) (x y : Str) : Option Nat :=
  match l with
  | [] => none
  | a :: r => if a == x || a == y then some 0 else (idxOf2 r x y).map (· + 1)

/-- `p.SampleIndexByName(v)` followed by interactive.go's range check; result: the type name that is
stored.  `stypes` = sample type names, `dflt` = `DefaultSampleType`. -/
def sampleIndexValue (stypes : List Str) (dflt : Str) (v : Str) : Option Str :=
  if v.isEmpty then
    match (if dflt.isEmpty then none else idxOf stypes dflt) with
    | some i => stypes[i]?
    | none => stypes.getLast?
  else match atoi v with
    | some i => if 0 ≤ i ∧ i < stypes.length then stypes[i.toNat]? else none
    | none => match idxOf2 stypes v (stripInuse v) with
      | some i => stypes[i]?
      | none => none

def eqS : Str := [61]

/-- `profileShortcuts(p)` as an association list in assignment order (later entries win). -/
def shortcutTable (stypes : List Str) : List (Str × List Str) :=
  (lit ":", [lit "focus=", lit "ignore=", lit "hide=", lit "tagfocus=", lit "tagignore="]) ::
  stypes.flatMap (fun t =>
    let cmd := lit "sample_index=" ++ t
    [(t, [cmd]), (lit "total_" ++ t, [lit "mean=0", cmd]), (lit "mean_" ++ t, [lit "mean=1", cmd])])

def lookupShortcut (stypes : List Str) (key : Str) : Option (List Str) :=
  List.lookup key (shortcutTable stypes).reverse

/-- `shortcuts.expand`. -/
def expand (stypes : List Str) (line : Str) : List Str :=
  match lookupShortcut stypes (trimSpace line) with
  | some r => r
  | none => [trimSpace line]

/-! ## commands (`pprofCommands`, `configHelp`, `parseCommandLine`) -/

/-- command name ↦ hasParam. -/
def commandTable : List (Str × Bool) := [
  (lit "comments", false), (lit "disasm", true), (lit "dot", false), (lit "list", true), (lit "peek", true),
  (lit "raw", false), (lit "tags", false), (lit "text", false), (lit "top", false), (lit "traces", false),
  (lit "tree", false), (lit "callgrind", false), (lit "proto", false), (lit "topproto", false),
  (lit "gif", false), (lit "pdf", false), (lit "png", false), (lit "ps", false), (lit "svg", false),
  (lit "eog", false), (lit "evince", false), (lit "gv", false), (lit "web", false),
  (lit "kcachegrind", false), (lit "weblist", true)]

/-- keys of `configHelp`: every option except `sort`/`granularity`, plus their choices. -/
def configHelpKeys : List Str :=
  (fieldTable.filter (fun f => f.choices.isEmpty)).map (·.name) ++ fieldTable.flatMap (·.choices)

def isDigit (b : UInt8) : Bool := 48 ≤ b.toNat && b.toNat ≤ 57

/-- `tailDigitsRE.FindString(name)`: the longest all-digit suffix. -/
def tailDigits (s : Str) : Str := (s.reverse.takeWhile isDigit).reverse

def catRegex (a b : Str) : Str := if !a.isEmpty && !b.isEmpty then a ++ [124] ++ b else a ++ b

structure ArgAcc where
  cfg : Config
  focus : Str
  ignore : Str

/-- the argument loop of `parseCommandLine`. -/
def parseArgs : List Str → ArgAcc → Except ErrK ArgAcc
  | [], a => .ok a
  | t :: rest, a =>
    match parseInt32 t with
    | some n => parseArgs rest { a with cfg := a.cfg.put (lit "nodecount") (intStr n) }
    | none =>
      match t with
      | 62 :: file =>
        if file.isEmpty then
          match rest with
          | [] => .error .eolAfterGt
          | f :: rest' => parseArgs rest' { a with cfg := a.cfg.put (lit "output") f }
        else parseArgs rest { a with cfg := a.cfg.put (lit "output") file }
      | 45 :: r =>
        if t == lit "--cum" || t == lit "-cum" then parseArgs rest { a with cfg := a.cfg.put (lit "sort") (lit "cum") }
        else parseArgs rest { a with ignore := catRegex a.ignore r }
      | _ => parseArgs rest { a with focus := catRegex a.focus t }

def putIf (c : Config) (n v : Str) : Config := if v.isEmpty then c else c.put n v

/-- `parseCommandLine(tokens)` given the current option values: the command (`[name]` or
`[name, param]`) and the configuration for THIS report (`vcopy`). `tokens` is non-empty. -/
def parseCommandLine (cur : Config) (tokens : List Str) : Except ErrK (List Str × Config) :=
  match tokens with
  | [] => .error .unrecognized
  | name0 :: args0 =>
    -- abbreviated commands (top10)
    let d := tailDigits name0
    let (name, args) :=
      if (List.lookup name0 commandTable).isNone && !d.isEmpty && d != name0
      then (name0.take (name0.length - d.length), d :: args0) else (name0, args0)
    match List.lookup name commandTable with
    | none => if configHelpKeys.contains name then .error .didYouMean else .error .unrecognized
    | some hasParam =>
      match (if hasParam then (match args with | [] => none | p :: r => some ([name, p], r)) else some ([name], args)) with
      | none => .error .needsArg
      | some (cmd, args) =>
        match parseArgs args { cfg := cur, focus := [], ignore := [] } with
        | .error e => .error e
        | .ok a =>
          let v := if name == lit "tags"
            then putIf (putIf a.cfg (lit "tagfocus") a.focus) (lit "tagignore") a.ignore
            else putIf (putIf a.cfg (lit "focus") a.focus) (lit "ignore") a.ignore
          let v := if v.get (lit "nodecount") == some (lit "-1") && (name == lit "text" || name == lit "top")
            then v.put (lit "nodecount") (lit "10") else v
          .ok (cmd, v)

/-! ## the interactive session -/

/-- external functions and the (impure-looking) report generator. -/
structure Env (π ρ : Type) where
  /-- `profile.ParseUncompressed` on the copier's bytes -/
  decode : Str → Outcome π
  /-- `generateReport(p, cmd, cfg, o)`: everything the user can observe (stdout, UI messages, output
  file) and the profile as it is LEFT BEHIND — generateReport is allowed to modify its argument. -/
  report : π → Config → List Str → ρ × π
  /-- `strconv.ParseFloat(v, 64)` then `fmt.Sprint` -/
  floatNorm : Str → Option Str

structure Session where
  /-- `copier`: the pre-serialised profile -/
  copier : Str
  /-- sample type names of the loaded profile (`p.SampleType[i].Type`) -/
  stypes : List Str
  /-- `p.DefaultSampleType` -/
  dfltType : Str
  /-- `currentCfg` -/
  cfg : Config
  /-- the loop has returned (`exit`/`quit`/`q`, or the process died) -/
  done : Bool

/-- observable events of one input line. -/
inductive Ev (ρ : Type) where
  | err (k : ErrK)              -- `o.UI.PrintErr(err)` of the loop itself
  | options (c : Config)        -- `printCurrentOptions`
  | help (topic : Str)          -- `commandHelp`
  | report (r : ρ)              -- everything `generateReport` emitted
  | panic                       -- `newCopy` panicked (copier bytes do not parse)

/-- state at the first prompt: `configure("compact_labels","true")` on the defaults. -/
def init (copier : Str) (stypes : List Str) (dflt : Str) : Session :=
  { copier := copier, stypes := stypes, dfltType := dflt,
    cfg := defaultConfig.put (lit "compact_labels") (lit "true"), done := false }

/-- the `name=value` branch of the loop. `rhs = none` when the input has no `=`. -/
def assign (fl : Str → Option Str) (s : Session) (name : Str) (rhs : Option Str) : Except ErrK Config :=
  if rhs.isNone && !isBoolConfig name then .error .pleaseSpecify
  else
    let value := match rhs with | some v => cleanValue v | none => []
    if name == lit "sample_index" then
      match sampleIndexValue s.stypes s.dfltType value with
      | none => .error .sampleIndex
      | some v => configure fl name v s.cfg
    else configure fl name value s.cfg

def isQuit (t : Str) : Bool := t == lit "exit" || t == lit "quit" || t == lit "q"
def isOptionsCmd (t : Str) : Bool := t == lit "o" || t == lit "options"

/-- one (already shortcut-expanded) input of the loop body. -/
def stepInput {π ρ} (E : Env π ρ) (s : Session) (input : Str) : Session × List (Ev ρ) :=
  let name := trimSpace (splitEq input).1
  if isConfigurable name then
    match assign E.floatNorm s name (splitEq input).2 with
    | .ok c => ({ s with cfg := c }, [])
    | .error k => (s, [.err k])
  else
    match fields input with
    | [] => (s, [])
    | t0 :: rest =>
      if isOptionsCmd t0 then (s, [.options s.cfg])
      else if isQuit t0 then ({ s with done := true }, [])
      else if t0 == lit "help" then (s, [.help (joinWith [32] rest)])
      else match parseCommandLine s.cfg (t0 :: rest) with
        | .error k => (s, [.err k])
        | .ok (cmd, vcfg) =>
          match E.decode s.copier with          -- copier.newCopy()
          | .ok p => (s, [.report (E.report p vcfg cmd).1])   -- the mutated profile `.2` is dropped
          | _ => ({ s with done := true }, [.panic])

def stepInputs {π ρ} (E : Env π ρ) (s : Session) : List Str → Session × List (Ev ρ)
  | [] => (s, [])
  | i :: r =>
    if s.done then (s, [])
    else
      let (s1, o1) := stepInput E s i
      let (s2, o2) := stepInputs E s1 r
      (s2, o1 ++ o2)

/-- one line typed at the prompt. -/
def step {π ρ} (E : Env π ρ) (s : Session) (line : Str) : Session × List (Ev ρ) :=
  stepInputs E s (expand s.stypes line)

/-- the session after a history of lines. -/
def run {π ρ} (E : Env π ρ) (s : Session) : List Str → Session
  | [] => s
  | l :: h => run E (step E s l).1 h

/-- the option values in effect after history `h`. -/
def cfgAfter {π ρ} (E : Env π ρ) (s : Session) (h : List Str) : Config := (run E s h).cfg

/-- transcript of a whole history: the events of each line. -/
def transcript {π ρ} (E : Env π ρ) (s : Session) : List Str → List (List (Ev ρ))
  | [] => []
  | l :: h => (step E s l).2 :: transcript E (step E s l).1 h

/-- syntactic classification, independent of the option values: does this (expanded) input take the
`name=value` branch?  -/
def isAssignInput (input : Str) : Bool := isConfigurable (trimSpace (splitEq input).1)

/-- does the line consist of assignments only (directly, or through a shortcut)? -/
def isAssignLine (stypes : List Str) (line : Str) : Bool :=
  (lookupShortcut stypes (trimSpace line)).isSome || isAssignInput (trimSpace line)

/-- does the line end the session? -/
def isQuitLine (stypes : List Str) (line : Str) : Bool :=
  !isAssignLine stypes line &&
    (match fields (trimSpace line) with | t0 :: _ => !isOptionsCmd t0 && isQuit t0 | [] => false)

/-- what the report generator is asked for by command line `c` under option values `cfg` on
profile bytes `copier`: the right-hand side of the property. -/
def commandOutput {π ρ} (E : Env π ρ) (copier : Str) (cfg : Config) (c : Str) : List (Ev ρ) :=
  match fields (trimSpace c) with
  | [] => []
  | t0 :: rest =>
    match parseCommandLine cfg (t0 :: rest) with
    | .error k => [.err k]
    | .ok (cmd, vcfg) =>
      match E.decode copier with
      | .ok p => [.report (E.report p vcfg cmd).1]
      | _ => [.panic]

/-- a line that reaches `parseCommandLine` whatever the state: not an assignment, not blank, not one of
the built-ins `o`/`options`/`exit`/`quit`/`q`/`help`. -/
def isReportLine (stypes : List Str) (line : Str) : Bool :=
  !isAssignLine stypes line &&
    (match fields (trimSpace line) with
     | t0 :: _ => !isOptionsCmd t0 && !isQuit t0 && !(t0 == lit "help")
     | [] => false)

/-! ## the web UI (`makeReport`) -/

inductive Endpoint where
  | dot | top | disasm | source | peek | flamegraph
  deriving DecidableEq, Repr

/-- `url.Values.Get`. -/
def urlGet (ps : List (Str × Str)) (k : Str) : Str := (List.lookup k ps).getD []

/-- `(*config).applyURL`. -/
def applyURLAux (fl : Str → Option Str) (ps : List (Str × Str)) : List FieldD → Config → Except ErrK Config
  | [], c => .ok c
  | f :: r, c =>
    if f.urlparam.isEmpty || (urlGet ps f.urlparam).isEmpty then applyURLAux fl ps r c
    else match setField fl f (urlGet ps f.urlparam) c with
      | .ok c' => applyURLAux fl ps r c'
      | .error e => .error e

def applyURL (fl : Str → Option Str) (ps : List (Str × Str)) (c : Config) : Except ErrK Config :=
  applyURLAux fl ps fieldTable c

/-- the `configEditor` closures of `top`, `peek`, `stackView`. -/
def editor (e : Endpoint) (c : Config) : Config :=
  match e with
  | .top => c.put (lit "nodecount") (lit "500")
  | .peek => c.put (lit "granularity") (lit "lines")
  | .flamegraph =>
    let c := (c.put (lit "call_tree") (lit "true")).put (lit "trim") (lit "false")
    if c.get (lit "granularity") == some [] then c.put (lit "granularity") (lit "filefunctions") else c
  | _ => c

def webCmd (e : Endpoint) (ps : List (Str × Str)) : List Str :=
  match e with
  | .dot => [lit "svg"]
  | .top => [lit "top"]
  | .disasm => [lit "disasm", urlGet ps (lit "f")]
  | .source => [lit "weblist", urlGet ps (lit "f")]
  | .peek => [lit "peek", urlGet ps (lit "f")]
  | .flamegraph => [lit "svg"]

/-- web server state: the copier, the process-wide options and the saved-settings file `σ`. -/
structure Web (σ : Type) where
  copier : Str
  cfg : Config
  settings : σ

structure WebEnv (π ρ σ μ : Type) where
  decode : Str → Outcome π
  /-- `generateRawReport` + the endpoint's rendering; may mutate the profile it is given -/
  render : Endpoint → π → Config → List Str → ρ × π
  floatNorm : Str → Option Str
  /-- `configMenu(settingsFile, url)` -/
  menu : σ → List (Str × Str) → μ
  /-- `setConfig` / `removeConfig` on the settings file -/
  save : σ → Config → List (Str × Str) → σ
  delete : σ → Str → σ

inductive Req where
  | view (e : Endpoint) (ps : List (Str × Str))
  | download
  | saveConfig (ps : List (Str × Str))
  | deleteConfig (name : Str)

inductive Resp (ρ μ : Type) where
  | badRequest
  | page (body : ρ) (menu : μ)
  | blob (bytes : Str)        -- /download: the serialised profile (gzip is external)
  | empty
  | panic

/-- the report part of a response (the saved-configuration menu factored out). -/
def Resp.body {ρ μ} : Resp ρ μ → Option (Option ρ)
  | .page b _ => some (some b)
  | .badRequest => some none
  | _ => none

def handle {π ρ σ μ} (E : WebEnv π ρ σ μ) (w : Web σ) (r : Req) : Web σ × Resp ρ μ :=
  match r with
  | .view e ps =>
    match applyURL E.floatNorm ps w.cfg with           -- cfg := currentConfig(); cfg.applyURL(...)
    | .error _ => (w, .badRequest)
    | .ok c =>
      match E.decode w.copier with                     -- ui.copier.newCopy()
      | .ok p => (w, .page (E.render e p (editor e c) (webCmd e ps)).1 (E.menu w.settings ps))
      | _ => (w, .panic)
  | .download => (w, .blob w.copier)
  | .saveConfig ps =>
    match applyURL E.floatNorm ps w.cfg with
    | .error _ => (w, .badRequest)
    | .ok c => ({ w with settings := E.save w.settings c ps }, .empty)
  | .deleteConfig n => ({ w with settings := E.delete w.settings n }, .empty)

def serve {π ρ σ μ} (E : WebEnv π ρ σ μ) (w : Web σ) : List Req → Web σ
  | [] => w
  | r :: rs => serve E (handle E w r).1 rs

/-- the right-hand side of the web property: what a view request shows, as a function of the profile
bytes, the option values and the request's own parameters only. -/
def viewOutput {π ρ σ μ} (E : WebEnv π ρ σ μ) (copier : Str) (cfg : Config) (e : Endpoint)
    (ps : List (Str × Str)) : Option (Option ρ) :=
  match applyURL E.floatNorm ps cfg with
  | .error _ => some none
  | .ok c =>
    match E.decode copier with
    | .ok p => some (some (E.render e p (editor e c) (webCmd e ps)).1)
    | _ => none

end PV.Session
