import PprofVerif.Model.Profile
/-
Executable model of profile/filter.go (`FilterSamplesByName`, `ShowFrom`, `FilterTagsByName`,
`FilterSamplesByTag`) on the id-based profile of `Model/Profile.lean`.  Core Lean only.

* A compiled `*regexp.Regexp` is a predicate parameter `Rx := Str → Bool` (`MatchString`);
  a nil regexp is `none`.  The harness evaluates Go's regexp on every name of the profile and
  sends the table of matching strings.
* Go keys its `focusOrIgnore` / `hidden` / `showFromLocs` maps by `Location.ID` and reaches the
  locations of a sample through pointers.  For profiles with unique location ids (CheckValid)
  "the map entry of id" and "what was computed for the table entry with that id" coincide, so
  the model looks the per-location result up through `findLocation`.
* The model mirrors the REPAIRED code:
    fix 10d4795 (= fixes/C06-keep-empty-stack-without-focus.patch): a sample without locations is
                                                 kept when focus == nil
    fixes/C06-show-keeps-unsymbolized-mapping-match.patch: a location without lines whose mapping
                                                 matches `show` is not hidden
  `ShowFrom` is modelled as the code is (finding C06/show_from/inlined-location-below-highest-match).
-/
namespace PV.Filter

abbrev Rx := Str → Bool

def fnMatches (re : Rx) (f : Function) : Bool := re f.name || re f.filename

/-- `fn := ln.Function; fn != nil && (re.MatchString(fn.Name) || re.MatchString(fn.Filename))` -/
def lineMatches (p : Profile) (re : Rx) (ln : Line) : Bool :=
  match p.findFunction ln.functionID with
  | some f => fnMatches re f
  | none => false

/-- the test of `matchedLines`: a line with a nil function is kept. -/
def lineShown (p : Profile) (re : Rx) (ln : Line) : Bool :=
  match p.findFunction ln.functionID with
  | some f => fnMatches re f
  | none => true

/-- `m := loc.Mapping; m != nil && re.MatchString(m.File)` -/
def mappingMatches (p : Profile) (re : Rx) (l : Location) : Bool :=
  match p.findMapping l.mappingID with
  | some m => re m.file
  | none => false

/-- `(*Location).matchesName` -/
def matchesName (p : Profile) (re : Rx) (l : Location) : Bool :=
  l.lines.any (lineMatches p re) || mappingMatches p re l

/-- `(*Location).unmatchedLines` -/
def unmatchedLines (p : Profile) (re : Rx) (l : Location) : List Line :=
  if mappingMatches p re l then [] else l.lines.filter (fun ln => !lineMatches p re ln)

/-- `(*Location).matchedLines` -/
def matchedLines (p : Profile) (re : Rx) (l : Location) : List Line :=
  if mappingMatches p re l then l.lines else l.lines.filter (lineShown p re)

/-! ### FilterSamplesByName: the per-location pass -/

/-- entry written into `focusOrIgnore[l.ID]`: `some false` ignored, `some true` focused. -/
def foiLoc (p : Profile) (focus ignore : Option Rx) (l : Location) : Option Bool :=
  if (match ignore with | some re => matchesName p re l | none => false) then some false
  else if (match focus with | some re => matchesName p re l | none => true) then some true
  else none

def hideHit (p : Profile) (hide : Option Rx) (l : Location) : Bool :=
  match hide with
  | some re => matchesName p re l
  | none => false

/-- the location after the `hide` branch. -/
def afterHide (p : Profile) (hide : Option Rx) (l : Location) : Location :=
  match hide with
  | some re => if matchesName p re l then { l with lines := unmatchedLines p re l } else l
  | none => l

def hiddenByHide (p : Profile) (hide : Option Rx) (l : Location) : Bool :=
  hideHit p hide l && (afterHide p hide l).lines.isEmpty

/-- the location after the `show` branch (applied to the result of the `hide` branch). -/
def afterShow (p : Profile) (show_ : Option Rx) (l1 : Location) : Location :=
  match show_ with
  | some re => { l1 with lines := matchedLines p re l1 }
  | none => l1

/-- `hidden[l.ID] = true` in the `show` branch.  `unsym` = the location had no lines when the
loop body started (repaired code: such a location stays when its mapping matches `show`). -/
def hiddenByShow (p : Profile) (show_ : Option Rx) (unsym : Bool) (l1 : Location) : Bool :=
  match show_ with
  | some re => (matchedLines p re l1).isEmpty && !(unsym && mappingMatches p re l1)
  | none => false

def locAfter (p : Profile) (hide show_ : Option Rx) (l : Location) : Location :=
  afterShow p show_ (afterHide p hide l)

def locHidden (p : Profile) (hide show_ : Option Rx) (l : Location) : Bool :=
  hiddenByHide p hide l || hiddenByShow p show_ l.lines.isEmpty (afterHide p hide l)

def locHnm (p : Profile) (hide show_ : Option Rx) (l : Location) : Bool :=
  show_.isSome && !hiddenByShow p show_ l.lines.isEmpty (afterHide p hide l)

/-! ### FilterSamplesByName: the per-sample pass -/

/-- `focusedAndNotIgnored`, the loop with its early return; `f` is the accumulator. -/
def focusedAndNotIgnored (m : Nat → Option Bool) : List Nat → Bool → Bool
  | [], f => f
  | id :: r, f =>
    match m id with
    | some true => focusedAndNotIgnored m r true
    | some false => false
    | none => focusedAndNotIgnored m r f

def foiMap (p : Profile) (focus ignore : Option Rx) (id : Nat) : Option Bool :=
  match p.findLocation id with
  | some l => foiLoc p focus ignore l
  | none => none

def hiddenId (p : Profile) (hide show_ : Option Rx) (id : Nat) : Bool :=
  match p.findLocation id with
  | some l => locHidden p hide show_ l
  | none => false

def sampleStep (p : Profile) (focus ignore hide show_ : Option Rx) (s : Sample) : Option Sample :=
  if focusedAndNotIgnored (foiMap p focus ignore) s.locationIDs false
      || (focus.isNone && s.locationIDs.isEmpty) then
    if p.locations.any (locHidden p hide show_) then
      let locs := s.locationIDs.filter (fun id => !hiddenId p hide show_ id)
      if locs.isEmpty then none else some { s with locationIDs := locs }
    else some s
  else none

structure NameResult where
  profile : Profile
  fm : Bool
  im : Bool
  hm : Bool
  hnm : Bool

/-- `(*Profile).FilterSamplesByName` -/
def filterSamplesByName (p : Profile) (focus ignore hide show_ : Option Rx) : NameResult :=
  if focus.isNone && ignore.isNone && hide.isNone && show_.isNone then
    { profile := p, fm := true, im := false, hm := false, hnm := false }
  else
    { profile := { p with
        locations := p.locations.map (locAfter p hide show_)
        samples := p.samples.filterMap (sampleStep p focus ignore hide show_) }
      fm := p.locations.any (fun l => foiLoc p focus ignore l == some true)
      im := p.locations.any (fun l => foiLoc p focus ignore l == some false)
      hm := p.locations.any (hideHit p hide)
      hnm := p.locations.any (locHnm p hide show_) }

/-! ### ShowFrom -/

/-- keep the prefix of a (leaf-first) list up to and including its LAST element satisfying `q`;
`none` when no element does.  This is both `loc.Line[:lastMatchedLineIndex+1]` and the
per-sample loop `for i := len-1 … if showFromLocs[…] { Location[:i+1] }`. -/
def keepThroughLast {α} (q : α → Bool) : List α → Option (List α)
  | [] => none
  | a :: r =>
    match keepThroughLast q r with
    | some r' => some (a :: r')
    | none => if q a then some [a] else none

/-- `filterShowFromLocation`: new location and whether it matched. -/
def showFromLoc (p : Profile) (re : Rx) (l : Location) : Location × Bool :=
  if mappingMatches p re l then (l, true)
  else match keepThroughLast (lineMatches p re) l.lines with
    | some ls => ({ l with lines := ls }, true)
    | none => (l, false)

def showFromId (p : Profile) (re : Rx) (id : Nat) : Bool :=
  match p.findLocation id with
  | some l => (showFromLoc p re l).2
  | none => false

def showFromSample (p : Profile) (re : Rx) (s : Sample) : Option Sample :=
  match keepThroughLast (showFromId p re) s.locationIDs with
  | some ids => some { s with locationIDs := ids }
  | none => none

/-- `(*Profile).ShowFrom` -/
def showFrom (p : Profile) (sf : Option Rx) : Profile × Bool :=
  match sf with
  | none => (p, false)
  | some re =>
    ({ p with
        locations := p.locations.map (fun l => (showFromLoc p re l).1)
        samples := p.samples.filterMap (showFromSample p re) },
     p.locations.any (fun l => (showFromLoc p re l).2))

/-! ### FilterTagsByName -/

def tagRemove (show_ hide : Option Rx) (name : Str) : Bool :=
  let matchShow := match show_ with | some re => re name | none => true
  let matchHide := match hide with | some re => re name | none => false
  !matchShow || matchHide

def filterTagsSample (show_ hide : Option Rx) (s : Sample) : Sample :=
  { s with
    label := s.label.filter (fun kv => !tagRemove show_ hide kv.1)
    numLabel := s.numLabel.filter (fun kv => !tagRemove show_ hide kv.1) }

def sampleKeys (s : Sample) : List Str := s.label.map (·.1) ++ s.numLabel.map (·.1)

/-- `(*Profile).FilterTagsByName` (note: `NumUnit` is left alone by the code). -/
def filterTagsByName (p : Profile) (show_ hide : Option Rx) : Profile × Bool × Bool :=
  ({ p with samples := p.samples.map (filterTagsSample show_ hide) },
   p.samples.any (fun s => (sampleKeys s).any (fun k => match show_ with | some re => re k | none => true)),
   p.samples.any (fun s => (sampleKeys s).any (fun k => match hide with | some re => re k | none => false)))

/-! ### FilterSamplesByTag -/

abbrev TagMatch := Sample → Bool

def tagFocused (focus : Option TagMatch) (s : Sample) : Bool :=
  match focus with | some f => f s | none => true
def tagIgnored (ignore : Option TagMatch) (s : Sample) : Bool :=
  match ignore with | some f => f s | none => false

/-- the loop of `FilterSamplesByTag`, with its accumulators. -/
def filterByTagLoop (focus ignore : Option TagMatch) :
    List Sample → List Sample → Bool → Bool → List Sample × Bool × Bool
  | [], acc, fm, im => (acc.reverse, fm, im)
  | s :: r, acc, fm, im =>
    let focused := tagFocused focus s
    let ignored := tagIgnored ignore s
    filterByTagLoop focus ignore r (if focused && !ignored then s :: acc else acc)
      (fm || focused) (im || ignored)

/-- `(*Profile).FilterSamplesByTag` -/
def filterSamplesByTag (p : Profile) (focus ignore : Option TagMatch) : Profile × Bool × Bool :=
  let r := filterByTagLoop focus ignore p.samples [] false false
  ({ p with samples := r.1 }, r.2.1, r.2.2)

end PV.Filter
