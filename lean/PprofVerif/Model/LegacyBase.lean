import PprofVerif.Model.Profile
/-!
# C14 — legacy formats: shared text machinery (core Lean only)

Bytes, number renderings (`dec`, `hex`) and their readers (mirroring the way the Go parsers use
`strconv.ParseInt/ParseUint` on regexp captures), `bufio.ScanLines`, `strings.TrimSpace`,
filler (blank / comment) lines, prefix and span scanners from which the per-format line
parsers are assembled.  The Go regular expressions themselves are external: the line parsers in
`Legacy*.lean` are hand-written deterministic matchers for the same languages restricted to
what the printers emit (plus the spacing variation the regexps tolerate); they are tied to the
Go code by the correspondence check on every printed document.
-/
namespace PV.Legacy
open PV

/-- ASCII literal → bytes; reduces by `decide`/`rfl`/`simp` (unlike `String.toUTF8`). -/
def asc (s : String) : Str := s.toList.map (fun c => UInt8.ofNat c.toNat)

abbrev two64 : Nat := 18446744073709551616
abbrev two63 : Nat := 9223372036854775808
abbrev two32 : Nat := 4294967296

/-- Go `addr--` on a `uint64`. -/
def decr64 (a : Nat) : Nat := (a + (two64 - 1)) % two64

/-- Go `int64(x)` of an exact integer result (two's complement wrap). -/
def wrapI64 (i : Int) : Int :=
  let m := i % (two64 : Int)
  if m < (two63 : Int) then m else m - (two64 : Int)

/-! ### byte classes -/
def isDigit (b : UInt8) : Bool := decide (48 ≤ b.toNat ∧ b.toNat ≤ 57)
def isHexLower (b : UInt8) : Bool := isDigit b || decide (97 ≤ b.toNat ∧ b.toNat ≤ 102)
/-- `[[:xdigit:]]` -/
def isXDigit (b : UInt8) : Bool := isHexLower b || decide (65 ≤ b.toNat ∧ b.toNat ≤ 70)
/-- regexp `\s` = `[\t\n\f\r ]` -/
def isReSpace (b : UInt8) : Bool := b.toNat == 9 || b.toNat == 10 || b.toNat == 12 || b.toNat == 13 || b.toNat == 32
/-- `unicode.IsSpace` on ASCII (what `strings.TrimSpace` / `strings.Fields` strip). -/
def isSpace (b : UInt8) : Bool := isReSpace b || b.toNat == 11
/-- regexp `\w` -/
def isWord (b : UInt8) : Bool :=
  isDigit b || decide (97 ≤ b.toNat ∧ b.toNat ≤ 122) || decide (65 ≤ b.toNat ∧ b.toNat ≤ 90) || b.toNat == 95
/-- printable ASCII -/
def isPrint (b : UInt8) : Bool := decide (32 ≤ b.toNat ∧ b.toNat ≤ 126)

/-! ### prefix scanner -/
def stripPrefix : Str → Str → Option Str
  | [], s => some s
  | _ :: _, [] => none
  | a :: l, b :: s => if a == b then stripPrefix l s else none

/-! ### number rendering -/
def digitChar (d : Nat) : UInt8 := if d < 10 then UInt8.ofNat (48 + d) else UInt8.ofNat (87 + d)

/-- digits of `n` in base `base`, least significant first; `fuel > n` suffices. -/
def digitsRev (base : Nat) : Nat → Nat → List UInt8
  | 0, _ => []
  | f+1, n => if n < base then [digitChar n] else digitChar (n % base) :: digitsRev base f (n / base)

def render (base n : Nat) : Str := (digitsRev base (n+1) n).reverse
/-- `%d` -/
def dec (n : Nat) : Str := render 10 n
/-- `%x` -/
def hex (n : Nat) : Str := render 16 n
/-- `%0<w>x` -/
def hexPad (w n : Nat) : Str := List.replicate (w - (hex n).length) 48 ++ hex n
/-- `0x%0<w>x` -/
def hex0x (w n : Nat) : Str := 48 :: 120 :: hexPad w n

/-- value of one digit byte (0-9a-fA-F), `16` for anything else. -/
def digitVal (b : UInt8) : Nat :=
  if 48 ≤ b.toNat ∧ b.toNat ≤ 57 then b.toNat - 48
  else if 97 ≤ b.toNat ∧ b.toNat ≤ 102 then b.toNat - 87
  else if 65 ≤ b.toNat ∧ b.toNat ≤ 70 then b.toNat - 55
  else 16

def valueOf (base : Nat) (s : Str) : Nat := s.foldl (fun acc b => acc * base + digitVal b) 0

/-- all bytes are digits of the base and there is at least one: the value. -/
def parseNat (base : Nat) (s : Str) : Option Nat :=
  if s ≠ [] ∧ s.all (fun b => decide (digitVal b < base)) then some (valueOf base s) else none

/-- `strconv.ParseInt(s, 10, 64)` on a non-negative digit string. -/
def parseI64 (s : Str) : Option Nat := (parseNat 10 s).filter (· < two63)
/-- `strconv.ParseUint(s, 16, 64)` -/
def parseU64Hex (s : Str) : Option Nat := (parseNat 16 s).filter (· < two64)

/-- `%d` of a signed number -/
def intStr (i : Int) : Str := if i < 0 then 45 :: dec i.natAbs else dec i.natAbs

/-- `strconv.ParseInt(s, 10, 64)` on an optionally negative digit string (`-?\d+`) -/
def parseI64Z (s : Str) : Option Int :=
  match stripPrefix [45] s with
  | some r => ((parseNat 10 r).filter (· ≤ two63)).map (fun n => -(n : Int))
  | none => (parseI64 s).map (fun n => (n : Int))

/-- Go `a / b` on `int64` (b ≠ 0): truncated towards zero, `MinInt64 / -1` wraps to `MinInt64`. -/
def goDiv (a b : Int) : Int := wrapI64 (Int.tdiv a b)

/-- `strconv.ParseInt(s, 0, 64)` restricted to unsigned digit strings and `0x…`: a leading `0`
(followed by more) makes the string octal (as in Go), `0x` hexadecimal. -/
def parseI64Base0 (s : Str) : Option Nat :=
  match s with
  | b :: c :: r =>
    if b.toNat == 48 then
      (if c.toNat == 120 || c.toNat == 88 then (parseNat 16 r).filter (· < two63)
       else (parseNat 8 (c :: r)).filter (· < two63))
    else parseI64 s
  | _ => parseI64 s

/-- magnitude of a base-0 literal (`0x…` hexadecimal, leading `0` octal, else decimal) -/
def parseNatBase0 (s : Str) : Option Nat :=
  match s with
  | b :: c :: r =>
    if b.toNat == 48 then
      (if c.toNat == 120 || c.toNat == 88 then parseNat 16 r else parseNat 8 (c :: r))
    else parseNat 10 s
  | _ => parseNat 10 s

/-- `strconv.ParseInt(s, 0, 64)` with an optional `-` -/
def parseI64Base0Z (s : Str) : Option Int :=
  match stripPrefix [45] s with
  | some r => ((parseNatBase0 r).filter (· ≤ two63)).map (fun n => -(n : Int))
  | none => (parseI64Base0 s).map (fun n => (n : Int))

/-- `strconv.ParseUint("0x…", 0, 64)` -/
def parseU64Base0 (s : Str) : Option Nat :=
  match stripPrefix [48, 120] s with
  | some r => parseU64Hex r
  | none => none

/-! ### scanners -/
def hasPrefix (l s : Str) : Bool := (stripPrefix l s).isSome

def containsSub (l : Str) : Str → Bool
  | [] => l.isEmpty
  | b :: s => hasPrefix l (b :: s) || containsSub l s

/-- split off the longest prefix satisfying `p`. -/
def spanP (p : UInt8 → Bool) (s : Str) : Str × Str := (s.takeWhile p, s.dropWhile p)

def skipSp (s : Str) : Str := s.dropWhile (fun b => b.toNat == 32)
def skipReSpace (s : Str) : Str := s.dropWhile isReSpace

def trimLeft (s : Str) : Str := s.dropWhile isSpace
def trimRight (s : Str) : Str := (s.reverse.dropWhile isSpace).reverse
/-- `strings.TrimSpace` (ASCII). -/
def trimSpace (s : Str) : Str := trimRight (trimLeft s)

/-- `isSpaceOrComment` of legacy_profile.go -/
def isSpaceOrComment (line : Str) : Bool :=
  match trimSpace line with
  | [] => true
  | b :: _ => b.toNat == 35

/-- `strings.Fields` -/
def fieldsAux : Str → Str → List Str
  | [], cur => if cur.isEmpty then [] else [cur.reverse]
  | b :: r, cur =>
    if isSpace b then (if cur.isEmpty then fieldsAux r [] else cur.reverse :: fieldsAux r [])
    else fieldsAux r (b :: cur)
def fields (s : Str) : List Str := fieldsAux s []

/-! ### lines -/
def dropCR (l : Str) : Str := if l.getLast? == some 13 then l.dropLast else l

/-- `bufio.ScanLines` over the whole input (token-size limit not modelled: printed lines are
kept below it by well-formedness). -/
def splitLinesAux : Str → Str → List Str
  | [], acc => if acc.isEmpty then [] else [dropCR acc.reverse]
  | b :: r, acc => if b.toNat == 10 then dropCR acc.reverse :: splitLinesAux r [] else splitLinesAux r (b :: acc)
def splitLines (s : Str) : List Str := splitLinesAux s []

/-- every line followed by a newline. -/
def unlines (ls : List Str) : Str := ls.flatMap (fun l => l ++ [10])

/-- line terminator: `\r\n` or `\n` -/
def eol (crlf : Bool) : Str := if crlf then [13, 10] else [10]

/-- The lines with freely chosen terminators: line `i` ends in `\r\n` iff `crlf[i]` (missing
entries: `\n`); with `noFinal` the last line has no terminator at all.  `unlines` is the case
"all `\n`, terminated". -/
def renderLines : List Bool → Bool → List Str → Str
  | _, _, [] => []
  | cs, noFinal, [l] => l ++ (if noFinal then [] else eol (cs.headD false))
  | cs, noFinal, l :: l2 :: r => l ++ eol (cs.headD false) ++ renderLines cs.tail noFinal (l2 :: r)

/-- A `bufio.Scanner` positioned on a token: `cur` is `s.Text()` (empty once `Scan` has returned
false), `rest` the lines not yet scanned. -/
structure Scanner where
  cur : Str
  rest : List Str
  deriving Repr, DecidableEq

/-- `s.Scan()` -/
def Scanner.scan (s : Scanner) : Bool × Scanner :=
  match s.rest with
  | [] => (false, { cur := [], rest := [] })
  | l :: r => (true, { cur := l, rest := r })

/-! ### filler lines (tolerated variation) -/
/-- a blank line (`indent` spaces) or a comment line (`indent` spaces, `#`, text). -/
structure Filler where
  indent : Nat
  comment : Option Str
  deriving Repr, DecidableEq, Inhabited

def Filler.print (f : Filler) : Str :=
  List.replicate f.indent 32 ++ (match f.comment with | none => [] | some t => 35 :: t)

/-- comment text: printable ASCII without `:` `=` `$` (so that a comment can never be a section
sentinel, a header, an attribute assignment or an attribute reference). -/
def commentOK (t : Str) : Bool :=
  t.all (fun b => isPrint b && b.toNat != 58 && b.toNat != 61 && b.toNat != 36)

def Filler.wf (f : Filler) : Bool :=
  match f.comment with | none => true | some t => commentOK t

def printFillers (fs : List Filler) : List Str := fs.map Filler.print

/-! ### hex address lists: `hexNumberRE.FindAllString` + `ParseUint(_, 0, 64)` -/
/-- scanner state of `hexNumberRE` = `0x[0-9a-f]+`: nothing yet, seen `0`, seen `0x`, inside the digits. -/
inductive HexSt where
  | s0 | s1 | s2 | s3 (acc : Str)
  deriving Repr, DecidableEq

/-- a byte that does not continue the current attempt is looked at afresh. -/
def hexRestart (b : UInt8) : HexSt := if b.toNat == 48 then .s1 else .s0

/-- all `0x[0-9a-f]+` occurrences, left to right, non-overlapping, each as long as possible (what
`FindAllString` reports); the captured digits (without `0x`) are returned. -/
def findHexGo : Str → HexSt → List Str
  | [], .s3 acc => [acc.reverse]
  | [], _ => []
  | b :: r, .s0 => findHexGo r (hexRestart b)
  | b :: r, .s1 => if b.toNat == 120 then findHexGo r .s2 else findHexGo r (hexRestart b)
  | b :: r, .s2 => if isHexLower b then findHexGo r (.s3 [b]) else findHexGo r (hexRestart b)
  | b :: r, .s3 acc => if isHexLower b then findHexGo r (.s3 (b :: acc)) else acc.reverse :: findHexGo r (hexRestart b)
def findHex (s : Str) : List Str := findHexGo s .s0

def parseHexList : List Str → Option (List Nat)
  | [] => some []
  | d :: r => do
    let a ← parseU64Hex d
    let as ← parseHexList r
    pure (a :: as)

/-- `parseHexAddresses` -/
def parseHexAddresses (s : Str) : Option (List Nat) := parseHexList (findHex s)

/-- ` 0x<a>` for every address: the way every text format prints a stack. -/
def printAddrs (w : Nat) (as : List Nat) : Str := as.flatMap (fun a => 32 :: hex0x w a)

/-- skip the comments at the beginning: the first line that is not blank/comment (the empty
text of an exhausted scanner when there is none), and the lines after it. -/
def skipLeadingFillers : List Str → Str × List Str
  | [] => ([], [])
  | l :: r => if isSpaceOrComment l then skipLeadingFillers r else (l, r)

/-- leftmost match of an unanchored regexp given its matcher at one position. -/
def searchRe {α} (m : Str → Option α) : Str → Option α
  | [] => m []
  | b :: s => match m (b :: s) with | some r => some r | none => searchRe m s

/-- `\d+` → digits, rest -/
def reDigits (s : Str) : Option (Str × Str) :=
  let ds := s.takeWhile isDigit
  if ds.isEmpty then none else some (ds, s.dropWhile isDigit)

/-- `-?\d+` → capture (with its sign), rest -/
def reSDigits (s : Str) : Option (Str × Str) :=
  match stripPrefix [45] s with
  | some r => (reDigits r).map (fun (d, t) => (45 :: d, t))
  | none => reDigits s

end PV.Legacy
