import PprofVerif.Model.Codec
/-
Model of `profileCopier` (internal/driver/driver.go): the interactive shell and the web UI
pre-serialise the profile once (`makeProfileCopier`: `src.WriteUncompressed(&buf)`) and hand every
command a fresh `ParseUncompressed` of those bytes (`newCopy`), which does `panic(err)` when the
parse fails.  Both are compositions of the codec model (`Model/Codec.lean`, tied to
profile/encode.go by C01's correspondence check).  Core Lean only.
-/
namespace PV
namespace Copier
open Wire (Bytes)

/-- `makeProfileCopier(src)`: the bytes of `serialize(src)`; `preEncode`'s `units[i]` is the only
panic site (the `io.Writer` is a `bytes.Buffer`, whose `Write` cannot fail). -/
def makeProfileCopier (src : Profile) : Outcome Bytes := Codec.serialize src

/-- `profileCopier.newCopy()`: `ParseUncompressed`, `panic(err)` on error. -/
def newCopy (c : Bytes) : Outcome Profile :=
  match Codec.parseUncompressed c with
  | .ok p => .ok p
  | .err e => .panic ("driver.go newCopy: panic(err): " ++ e)
  | .panic s => .panic s

end Copier
end PV
