import PprofVerif.Model.LegacyCpu
/-!
# C14 — Java heapz / contentionz profiles: `parseJavaProfile`

```
--- heapz 1 ---            |  --- contentionz 1 ---
format = java
resolution = bytes         |  resolution = microseconds
                           |  sampling period = 100
                           |  ms since reset = 6019923
<bytes> <objects> @ 0x00000003 0x00000004 …      (the two numbers are stored in swapped order)

 0x00000003 com.example.function003 (Source003.java:103)
 0x00000004 JVM_Something (/usr/lib/libjvm.so)
 0x00000005 [generated stub/JIT]
 0x00000006 GC
```
heapz: values `[objects, bytes]` unsampled with rate 524288, label bytes = bytes/objects;
contentionz: values `[second, first] · period`. Locations named in the trailer get one line
(function, file, line) and lose their address; all addresses are cleared at the end.
-/
namespace PV.Legacy
open PV

inductive JavaLocKind where
  | fileLine (func file : Str) (line : Int)
  | path (func path : Str)
  | stub (pre post : Str)
  | plain (text : Str)
  deriving Repr, DecidableEq, Inhabited

def stubMarker : Str := asc "generated stub/JIT"

def JavaLocKind.print : JavaLocKind → Str
  | .fileLine f file line => f ++ asc " (" ++ file ++ [58] ++ intStr line ++ asc ")"
  | .path f p => f ++ asc " (" ++ p ++ asc ")"
  | .stub pre post => pre ++ stubMarker ++ post
  | .plain t => t

structure JavaLoc where
  fill : List Filler      -- filler lines before (ignored by the parser)
  indent : Nat
  width : Nat
  addr : Nat
  gap : Nat
  kind : JavaLocKind
  deriving Repr, DecidableEq, Inhabited

def JavaLoc.print (l : JavaLoc) : Str := sp l.indent ++ hex0x l.width l.addr ++ sp (l.gap + 1) ++ l.kind.print

structure JavaRec where
  blanks : Nat
  indent : Nat
  first : Nat
  second : Nat
  gap : Nat
  addrs : List Nat
  deriving Repr, DecidableEq, Inhabited

def JavaRec.print (w : Nat) (r : JavaRec) : Str :=
  sp r.indent ++ dec r.first ++ sp (r.gap + 1) ++ dec r.second ++ sp (r.gap + 1) ++ [64] ++ printAddrs w r.addrs

structure JavaDoc where
  heap : Bool
  format : Bool
  resolution : Str
  samplingPeriod : Option Nat
  msSinceReset : Option Nat
  spaced : Bool
  width : Nat
  recs : List JavaRec
  blanksAfter : Nat
  locs : List JavaLoc
  deriving Repr, DecidableEq, Inhabited

def javaAttr (spaced : Bool) (k v : Str) : Str := k ++ (if spaced then asc " = " else asc "=") ++ v

def JavaDoc.headLine (d : JavaDoc) : Str := if d.heap then asc "--- heapz 1 ---" else asc "--- contentionz 1 ---"

def JavaDoc.attrLines (d : JavaDoc) : List Str :=
  (if d.format then [javaAttr d.spaced (asc "format") (asc "java")] else []) ++
  [javaAttr d.spaced (asc "resolution") d.resolution] ++
  (if d.heap then [] else
    (match d.samplingPeriod with | none => [] | some p => [javaAttr d.spaced (asc "sampling period") (dec p)]) ++
    (match d.msSinceReset with | none => [] | some p => [javaAttr d.spaced (asc "ms since reset") (dec p)]))

def JavaDoc.lines (d : JavaDoc) : List Str :=
  [d.headLine] ++ d.attrLines ++
    d.recs.flatMap (fun r => List.replicate r.blanks [] ++ [r.print d.width]) ++
    List.replicate d.blanksAfter [] ++
    d.locs.flatMap (fun l => printFillers l.fill ++ [l.print])

def printJava (d : JavaDoc) : Str := unlines d.lines

/-- bytes allowed in trailer texts: printable, no `@` (a trailer line must not look like a
sample) and no `=` (nor like an attribute). -/
def javaByteOK (b : UInt8) : Bool := isPrint b && b.toNat != 64 && b.toNat != 61

def noSpaceOK (s : Str) : Bool := s != [] && s.all (fun b => javaByteOK b && b.toNat != 32)

def JavaLocKind.wf : JavaLocKind → Bool
  | .fileLine f file line =>
    noSpaceOK f && noSpaceOK file && file.all (fun b => b.toNat != 58) && decide (line.natAbs < two63)
  | .path f p => noSpaceOK f && noSpaceOK p && p.all (fun b => b.toNat != 58)
  | .stub pre post =>
    (pre ++ post).all (fun b => javaByteOK b && b.toNat != 41) &&
    (match pre with | b :: _ => b.toNat != 32 | [] => true) &&
    (match post.reverse with | b :: _ => b.toNat != 32 | [] => true)
  | .plain t =>
    t != [] && t.all (fun b => javaByteOK b && b.toNat != 41 && b.toNat != 47) &&
    (match t with | b :: _ => b.toNat != 32 | [] => true) &&
    (match t.reverse with | b :: _ => b.toNat != 32 | [] => true)

def JavaDoc.wf (d : JavaDoc) : Bool :=
  d.resolution != [] && d.resolution.all isWord &&
  d.samplingPeriod.all (· < two63) && d.msSinceReset.all (· < two63) &&
  d.recs.all (fun r => r.first < two63 && r.second < two63 && r.addrs != [] && r.addrs.all (· < two64) &&
                       (!d.heap || r.second != 0)) &&
  d.locs.all (fun l => l.fill.all (fun f => f.wf && f.comment.all (fun t => t.all (fun b => b.toNat != 64))) && l.addr < two64 && l.kind.wf)

/-! ### documented meaning -/
/-- what a trailer line says about an address: function name, file, line. -/
structure JavaInfo where
  addr : Nat
  func : Str
  file : Str
  line : Int
  deriving Repr, DecidableEq, Inhabited

/-- `filepath.Base` (Unix) -/
def pathBase (p : Str) : Str :=
  if p.isEmpty then [46] else
  let q := (p.reverse.dropWhile (fun b => b.toNat == 47)).reverse
  if q.isEmpty then [47] else (q.reverse.takeWhile (fun b => b.toNat != 47)).reverse

def JavaLoc.info (l : JavaLoc) : JavaInfo :=
  match l.kind with
  | .fileLine f file line => { addr := l.addr, func := f, file := file, line := if line > 0 then line else 0 }
  | .path f p => { addr := l.addr, func := f, file := pathBase p, line := 0 }
  | .stub _ _ => { addr := l.addr, func := asc "STUB", file := [], line := 0 }
  | .plain t => { addr := l.addr, func := t, file := [], line := 0 }

def strIdx (l : List Str) (s : Str) : Nat := l.idxOf s + 1

def dedupStr : List Str → List Str → List Str
  | _, [] => []
  | seen, a :: r => if seen.contains a then dedupStr seen r else a :: dedupStr (a :: seen) r

structure JavaHeader where
  sampleType : List ValueType
  periodType : ValueType
  period : Int
  durationNanos : Int
  heap : Bool
  deriving Repr, DecidableEq, Inhabited

/-- `isProfileType` (legacy_profile.go): the sample type NAMES are exactly one of the lists -/
def isProfileType (st : List ValueType) (types : List (List Str)) : Bool := types.any (fun t => st.map (·.typ) == t)

def heapzSampleTypes : List (List Str) :=
  [[asc "allocations", asc "size"], [asc "objects", asc "space"], [asc "inuse_objects", asc "inuse_space"],
   [asc "alloc_objects", asc "alloc_space"], [asc "alloc_objects", asc "alloc_space", asc "inuse_objects", asc "inuse_space"]]

def contentionzSampleTypes : List (List Str) := [[asc "contentions", asc "delay"]]

/-- `addLegacyFrameInfo`: DropFrames / KeepFrames follow from the sample types (a Java profile
without a `resolution` attribute has none and gets the CPU filters) -/
def legacyFrameInfo (st : List ValueType) : Str × Str :=
  if isProfileType st heapzSampleTypes then (allocRxStr, allocSkipRxStr)
  else if isProfileType st contentionzSampleTypes then (lockRxStr, [])
  else (cpuProfilerRxStr, [])

/-- assemble: location table in order of first use, one line for the addresses the trailer
names (the last line for an address wins; a function keeps the file of the first line that
introduced it), a catch-all mapping for unnamed non-zero addresses, all addresses cleared. -/
def javaAssemble (h : JavaHeader) (ss : List RawSample) (infos : List JavaInfo) : Profile :=
  let order := dedup (ss.flatMap (·.addrs))
  let used := infos.filter (fun i => order.contains i.addr)
  let fnFile (f : Str) : Str := match used.find? (fun i => i.func == f) with | some i => i.file | none => []
  let lineOf (a : Nat) : Option JavaInfo := used.reverse.find? (fun i => i.addr == a)
  let fnOrder := dedupStr [] (order.filterMap (fun a => (lineOf a).map (·.func)))
  let unresolved (a : Nat) : Bool := (lineOf a).isNone && a != 0
  { sampleType := h.sampleType, defaultSampleType := [],
    samples := ss.map (fun s => { locationIDs := s.addrs.map (idOf order), values := s.values,
                                   label := [], numLabel := s.numLabel, numUnit := [] }),
    mappings := if order.any unresolved then [{ fakeMapping with id := 1 }] else [],
    locations := order.zipIdx.map (fun (a, i) =>
      { id := i + 1, mappingID := if unresolved a then 1 else 0, address := 0,
        lines := match lineOf a with
          | some inf => [{ functionID := strIdx fnOrder inf.func, line := inf.line, column := 0 }]
          | none => [],
        isFolded := false }),
    functions := fnOrder.zipIdx.map (fun (f, i) =>
      { id := i + 1, name := f, systemName := f, filename := fnFile f, startLine := 0 }),
    comments := [], docURL := [],
    dropFrames := (legacyFrameInfo h.sampleType).1,
    keepFrames := (legacyFrameInfo h.sampleType).2,
    timeNanos := 0, durationNanos := h.durationNanos, periodType := some h.periodType, period := h.period }

def javaHeapRate : Nat := 524288

def javaSample (scale : ScaleFn) (heap : Bool) (period : Int) (first second : Nat) (addrs : List Nat) : RawSample :=
  if heap then
    let v := unsample scale true javaHeapRate (second : Int) (first : Int)
    { addrs := addrs, values := [v.1, v.2], numLabel := [(asc "bytes", [((first / second : Nat) : Int)])] }
  else
    { addrs := addrs,
      values := if period != 0 then [wrapI64 ((second : Int) * period), wrapI64 ((first : Int) * period)]
                else [(second : Int), (first : Int)],
      numLabel := [] }

def JavaDoc.header (d : JavaDoc) : JavaHeader :=
  if d.heap then
    { sampleType := [vt "inuse_objects" "count", { typ := asc "inuse_space", unit := d.resolution }],
      periodType := { typ := [], unit := [] }, period := 0, durationNanos := 0, heap := true }
  else
    { sampleType := [vt "contentions" "count", { typ := asc "delay", unit := d.resolution }],
      periodType := (match d.samplingPeriod with | some _ => vt "contentions" "count" | none => { typ := [], unit := [] }),
      period := (match d.samplingPeriod with | some p => (p : Int) | none => 0),
      durationNanos := (match d.msSinceReset with | some ms => wrapI64 ((ms : Int) * 1000 * 1000) | none => 0),
      heap := false }

def expectedJava (scale : ScaleFn) (d : JavaDoc) : Profile :=
  let h := d.header
  javaAssemble h (d.recs.map (fun r => javaSample scale d.heap h.period r.first r.second r.addrs)) (d.locs.map JavaLoc.info)

/-! ### parser -/
/-- the `\n`-terminated lines and the unterminated remainder. -/
def splitNLAux : Str → Str → List Str × Str
  | [], acc => ([], acc.reverse)
  | b :: r, acc =>
    if b.toNat == 10 then let (ls, rem) := splitNLAux r []; (acc.reverse :: ls, rem)
    else splitNLAux r (b :: acc)
def splitNL (s : Str) : List Str × Str := splitNLAux s []

def isWordOrSp (b : UInt8) : Bool := isWord b || b.toNat == 32

/-- attributeRx `([\w ]+)=([\w ]+)` at one position -/
def matchAttrAt (s : Str) : Option (Str × Str) :=
  let k := s.takeWhile isWordOrSp
  if k.isEmpty then none else
  match stripPrefix [61] (s.dropWhile isWordOrSp) with
  | none => none
  | some r => let v := r.takeWhile isWordOrSp; if v.isEmpty then none else some (k, v)

structure JavaHdrState where
  sampleType : List ValueType
  periodType : ValueType
  period : Int
  durationNanos : Int
  deriving Repr, DecidableEq, Inhabited

/-- `parseJavaHeader` over the terminated lines; returns the lines not consumed. -/
def javaHeaderLoop (heap : Bool) : List Str → JavaHdrState → Outcome (JavaHdrState × List Str)
  | [], st => .ok (st, [])
  | l :: r, st =>
    let line := trimSpace l
    if line.isEmpty then javaHeaderLoop heap r st else
    match searchRe matchAttrAt line with
    | none => .ok (st, l :: r)
    | some (k, v) =>
      let attr := trimSpace k
      let value := trimSpace v
      if attr == asc "format" then (if value == asc "java" then javaHeaderLoop heap r st else .err "unrecognized")
      else if attr == asc "resolution" then
        javaHeaderLoop heap r { st with sampleType :=
          if heap then [vt "inuse_objects" "count", { typ := asc "inuse_space", unit := value }]
          else [vt "contentions" "count", { typ := asc "delay", unit := value }] }
      else if !heap && attr == asc "sampling period" then
        match parseI64Base0 value with
        | some p => javaHeaderLoop heap r { st with periodType := vt "contentions" "count", period := (p : Int) }
        | none => .err "failed to parse attribute"
      else if !heap && attr == asc "ms since reset" then
        match parseI64Base0 value with
        | some ms => javaHeaderLoop heap r { st with durationNanos := wrapI64 ((ms : Int) * 1000 * 1000) }
        | none => .err "failed to parse attribute"
      else .err "unrecognized"

/-- javaSampleRx ` *(\d+) +(\d+) +@ +([ x0-9a-f]*)` at one position -/
def matchJavaSampleAt (s : Str) : Option (Str × Str × Str) := do
  let (a, s) ← reDigits (skipSp s)
  let s1 := skipSp s
  if s1.length == s.length then none else
  let (b, s) ← reDigits s1
  let s1 := skipSp s
  if s1.length == s.length then none else
  let s ← stripPrefix [64] s1
  let s1 := skipSp s
  if s1.length == s.length then none else
  pure (a, b, s1.takeWhile (fun x => x.toNat == 32 || x.toNat == 120 || isHexLower x))

/-- `parseJavaSamples` over the terminated lines -/
def javaSampleLoop (scale : ScaleFn) (heap : Bool) (period : Int) :
    List Str → List RawSample → Outcome (List RawSample × List Str)
  | [], acc => .ok (acc.reverse, [])
  | l :: r, acc =>
    let line := trimSpace l
    if line.isEmpty then javaSampleLoop scale heap period r acc else
    match searchRe matchJavaSampleAt line with
    | none => .ok (acc.reverse, l :: r)
    | some (a, b, addrText) =>
      match parseHexAddresses addrText, parseI64Base0 b, parseI64Base0 a with
      | some addrs, some second, some first =>
        if heap && second == 0 then .err "second value must be non-zero"
        else javaSampleLoop scale heap period r (javaSample scale heap period first second addrs :: acc)
      | _, _, _ => .err "malformed sample"

/-- `(-?[[:digit:]]+)` → value -/
def parseSignedDec (s : Str) : Option Int :=
  match s with
  | [] => none
  | c :: r => if c.toNat == 45 then (parseNat 10 r).map (fun n => -(n : Int)) else (parseNat 10 s).map (fun n => (n : Int))

/-- split at the last `:` -/
def splitLastColon (s : Str) : Option (Str × Str) :=
  let after := (s.reverse.takeWhile (fun b => b.toNat != 58)).reverse
  match s.reverse.dropWhile (fun b => b.toNat != 58) with
  | [] => none
  | _ :: before => some (before.reverse, after)

/-- classification of the text after the address (the three regexps of `parseJavaLocations`),
for texts whose only blank run (if any) separates the function from a parenthesised part. -/
def javaClassify (addr : Nat) (t : Str) : JavaInfo :=
  let f := t.takeWhile (fun b => !isReSpace b)
  let rest := skipReSpace (t.dropWhile (fun b => !isReSpace b))
  let hasWs := decide ((t.dropWhile (fun b => !isReSpace b)).length > rest.length)
  let paren : Option Str :=
    if hasWs && rest.head? == some 40 && t.getLast? == some 41 then some (rest.drop 1).dropLast else none
  match paren with
  | some inner =>
    let fl : Option (Str × Int) :=
      match splitLastColon inner with
      | some (file, num) => if file.isEmpty then none else (parseSignedDec num).map (fun n => (file, n))
      | none => none
    (match fl with
     | some (file, n) => { addr := addr, func := f, file := file, line := if n > 0 ∧ n < (two63 : Int) then n else 0 }
     | none => { addr := addr, func := f, file := pathBase inner, line := 0 })
  | none =>
    if containsSub stubMarker t then { addr := addr, func := asc "STUB", file := [], line := 0 }
    else { addr := addr, func := t, file := [], line := 0 }

/-- javaLocationRx `^\s*0x([[:xdigit:]]+)\s+(.*)\s*$` on a trimmed line -/
def matchJavaLoc (line : Str) : Option (Str × Str) := do
  let s ← stripPrefix (asc "0x") (skipReSpace line)
  let a := s.takeWhile isXDigit
  if a.isEmpty then none else
  let r := s.dropWhile isXDigit
  let t := skipReSpace r
  if t.length == r.length then none else some (a, t)

def javaLocLoop : List Str → Outcome (List JavaInfo)
  | [] => .ok []
  | l :: r =>
    let line := trimSpace l
    match (if line.isEmpty then none else matchJavaLoc line) with
    | none => javaLocLoop r
    | some (a, t) =>
      match parseU64Hex a with
      | none => .err "parsing sample"
      | some addr =>
        match javaLocLoop r with
        | .ok is => .ok (javaClassify addr t :: is)
        | e => e

/-- the lines `parseJavaLocations` reads with `ReadString('\n')`: the terminated ones and, if
non-empty, the unterminated remainder (which the Go code deliberately still processes) -/
def javaLocLines (b : Str) : List Str :=
  let (ls, rem) := splitNL b
  ls ++ (if rem.isEmpty then [] else [rem])

/-- the part of `CheckValid` (run by `Aggregate` at the end of `parseJavaProfile`) that can fail
here: samples need sample types, and as many values as there are types (a Java profile without
a `resolution` attribute has no sample types) -/
def checkSampleTypes (p : Profile) : Bool :=
  (p.sampleType.length != 0 || p.samples.isEmpty) && p.samples.all (fun s => s.values.length == p.sampleType.length)

def parseJavaProfile (scale : ScaleFn) (b : Str) : Outcome Profile :=
  let (ls, rem) := splitNL b
  match ls with
  | [] => .err "unrecognized"
  | hd :: rest =>
    let header := trimSpace hd
    let heap? : Option Bool :=
      if header == asc "--- heapz 1 ---" then some true
      else if header == asc "--- contentionz 1 ---" then some false else none
    match heap? with
    | none => .err "unrecognized"
    | some heap =>
      match javaHeaderLoop heap rest { sampleType := [], periodType := { typ := [], unit := [] }, period := 0, durationNanos := 0 } with
      | .err e => .err e
      | .panic e => .panic e
      | .ok (st, ls1) =>
        match javaSampleLoop scale heap st.period ls1 [] with
        | .err e => .err e
        | .panic e => .panic e
        | .ok (ss, ls2) =>
          match javaLocLoop (ls2 ++ (if rem.isEmpty then [] else [rem])) with
          | .err e => .err e
          | .panic e => .panic e
          | .ok infos =>
            let p := javaAssemble { sampleType := st.sampleType, periodType := st.periodType, period := st.period,
                                    durationNanos := st.durationNanos, heap := heap } ss infos
            if checkSampleTypes p then .ok p else .err "malformed profile"

end PV.Legacy
