import PprofVerif.Base.Basic
/-!
# Function-id assignment of local symbolization (property C08)

`doLocalSymbolize` (internal/symbolizer/symbolizer.go) walks the mappings in the order of
`prof.Mapping`, the locations of a mapping in the order of `prof.Location`, the frames an address
resolves to leaf first, and hands every frame to `addFunction`: a function value seen before keeps
its id, a new one gets `maxFunctionID+1` and is appended to `prof.Function` — first-come numbering.
A "key" is the function value (name, system name, file, start line) as an opaque byte string.
Core Lean only.
-/
namespace PV.SymIds

def indexOf (k : Str) : List Str → Option Nat
  | [] => none
  | x :: xs => if x = k then some 0 else (indexOf k xs).map (· + 1)

/-- ids handed out for the frames `ks` in processing order; `seen` = functions added so far (in the
order they were appended to prof.Function), `start` = largest function id of the input profile -/
def assign (start : Nat) : List Str → List Str → List (Str × Nat)
  | _, [] => []
  | seen, k :: ks =>
    match indexOf k seen with
    | some i => (k, start + 1 + i) :: assign start seen ks
    | none => (k, start + 1 + seen.length) :: assign start (seen ++ [k]) ks

/-- the functions appended to prof.Function, in order -/
def added : List Str → List Str → List Str
  | seen, [] => seen
  | seen, k :: ks =>
    match indexOf k seen with
    | some _ => added seen ks
    | none => added (seen ++ [k]) ks

end PV.SymIds
