import PprofVerif.Base.Basic
import PprofVerif.Base.Tok
import PprofVerif.Model.Profile
import PprofVerif.Model.Wire
import PprofVerif.Model.Codec
import PprofVerif.Props.C01
